"""Seeded generator of operations valid against a graphql-core schema.

Every document is filtered by graphql-core `validate` by the caller; the generator tries hard to be
valid by construction (unique aliases for anything with arguments or sub-selections, fragments free
of variables) so that the yield is high."""
from __future__ import annotations

import random
from typing import Dict, List, Optional, Set, Tuple

from graphql import (
    GraphQLEnumType,
    GraphQLInputObjectType,
    GraphQLInterfaceType,
    GraphQLList,
    GraphQLNonNull,
    GraphQLObjectType,
    GraphQLScalarType,
    GraphQLSchema,
    GraphQLUnionType,
    get_named_type,
    is_abstract_type,
    is_composite_type,
    is_leaf_type,
    is_required_argument,
    is_required_input_field,
)

STRLIT_CLEAN = ["plain", "hash", "equals", "braces", "dquote_escaped", "backslash", "unicode_escape", "non_ascii", "empty", "inner_whitespace", "unicode_line_boundary", "long_prose"]
STRLIT = {
    "plain": ['"hello world"', '"abc123"'],
    "hash": ['"a # not a comment"'],
    "equals": ['"a=b, c = d"'],
    "braces": ['"{x} (y) [z]"'],
    "dquote_escaped": ['"say \\"hi\\""'],
    "backslash": ['"back\\\\slash"'],
    "unicode_escape": ['"snow \\u2603"'],
    "non_ascii": ['"żółć ☃ é"'],
    "empty": ['""'],
    # characters that Python's str.splitlines() treats as line boundaries although GraphQL does not (raw inside the literal)
    "unicode_line_boundary": ['"x\u2028y"', '"p\u0085q"', '"form\x0cfeed"', '"a\u2029b\x1cc"'],
    # longer than any line a formatter would leave alone: prose with spaces, commas and hyphens (every character of it is part of the value)
    "long_prose": ['"' + " ".join(["lorem ipsum dolor sit amet, consectetur adipiscing elit - sed do eiusmod tempor"] * 3) + '"',
                   '"' + "word " * 60 + 'end"', '"' + "x" * 300 + '"'],
    "inner_whitespace": ['"salt  and   pepper"', '"  leading and trailing  "', '"a    b"'],
    "single_quote": ['"it\'s"', '"\'quoted\'"'],
    "escape_n": ['"line1\\nline2"', '"tab\\there"'],
    "block": ['"""block string"""', '"""\n  multi\n  line "quoted"\n"""'],
}


class OpGen:
    def __init__(self, schema: GraphQLSchema, rng: random.Random, dirty: Optional[Set[str]] = None, max_depth: int = 3,
                 fragments: bool = True, directives: bool = True, mixins: Optional[List[Tuple[str, str]]] = None):
        self.schema = schema
        self.rng = rng
        self.dirty = dirty or set()
        self.feats: Set[str] = set()
        self.n = 0
        self.max_depth = max_depth
        self.use_fragments = fragments
        self.use_directives = directives
        self.frags: Dict[str, Tuple[str, str]] = {}  # name -> (type condition, text)
        self.frag_has_inline: Dict[str, bool] = {}
        self.mixins = mixins or []  # available (module, class) pairs for @mixin
        self.vars: List[Tuple[str, str, Optional[str]]] = []  # (name, type, default) of the op being built
        self.in_fragment = False
        self.deep = False
        self.used_aliases: set = set()
        self.used_vars: set = set()
        self.current_kind = "query"
        self.frag_vars: Dict[str, List[Tuple[str, str, Optional[str]]]] = {}  # fragment name -> variables its body uses (the spreading operation declares them)
        self.frag_var_names: set = set()
        self.custom_dir = schema.get_directive("vfTag") is not None  # see gen/schema.py CUSTOM_DIRECTIVE_SDL

    # ------------------------------------------------------------------ helpers
    def uid(self) -> int:
        self.n += 1
        return self.n

    def dirty_name(self, scope_used: set) -> Optional[str]:
        from .schema import Names
        for cls_name, pool in Names.DIRTY_POOLS.items():
            if cls_name in self.dirty and self.rng.random() < 0.3:
                # never a name that differs from a used one only by case/underscores: such pairs are a separate (listed) collision class, driven by C18 part C
                taken = {u.lower().replace("_", "") for u in scope_used}
                free = [p for p in pool if p not in scope_used and p.lower().replace("_", "") not in taken]
                if free:
                    self.feats.add(cls_name + ".op")
                    name = self.rng.choice(free)
                    scope_used.add(name)
                    return name
        return None

    def alias(self) -> str:
        d = self.dirty_name(self.used_aliases)
        if d:
            return d
        n = self.uid()
        style = self.rng.randrange(4)
        if style == 0:
            return "al%d" % n
        if style == 1:
            return "aliasName%d" % n
        if style == 2:
            return "alias_name_%d" % n
        return "AliasURL%d" % n

    def var_name(self) -> str:
        if self.in_fragment:
            # a fragment's variables meet those of every operation that spreads it: plain numbered names only, so that no pair colliding after the
            # name mapping (Variables / variables: the listed collision class, C18's matter) is manufactured by the generator itself
            return ["v%d", "varName%d", "var_name_%d", "VarID%d"][self.rng.randrange(4)] % self.uid()
        d = self.dirty_name(self.used_vars)
        if d:
            return d
        n = self.uid()
        if self.rng.random() < (0.4 if self.current_kind == "subscription" else 0.12):
            pool = ["query", "variables", "response", "data", "operation_name"]
            if self.rng.random() < 0.4:
                pool = ["Query", "QUERY", "query_", "Data", "DATA", "Variables", "Response", "data_"]  # become a method local's name only after the name mapping
            free = [x for x in pool if x not in self.used_vars and x.lower().replace("_", "") not in {u.lower().replace("_", "") for u in self.used_vars}]
            if free:
                name = self.rng.choice(free)
                self.used_vars.add(name)
                self.feats.add("var.local_name_clash")
                return name
        style = self.rng.randrange(4)
        if style == 0:
            return "v%d" % n
        if style == 1:
            return "varName%d" % n
        if style == 2:
            return "var_name_%d" % n
        return "VarID%d" % n

    def possible(self, t) -> List[GraphQLObjectType]:
        return list(self.schema.get_possible_types(t))

    def strlit(self) -> str:
        classes = list(STRLIT_CLEAN) + [c for c in ("single_quote", "escape_n", "block") if "strlit." + c in self.dirty]
        c = self.rng.choice(classes)
        self.feats.add("strlit." + c)
        return self.rng.choice(STRLIT[c])

    def literal(self, t, depth: int = 0, allow_null: bool = True) -> str:
        rng = self.rng
        if isinstance(t, GraphQLNonNull):
            return self.literal(t.of_type, depth, False)
        if allow_null and rng.random() < 0.1:
            self.feats.add("lit.null")
            return "null"
        if isinstance(t, GraphQLList):
            self.feats.add("lit.list")
            return "[" + ", ".join(self.literal(t.of_type, depth + 1) for _ in range(rng.randrange(0, 3))) + "]"
        if isinstance(t, GraphQLEnumType):
            self.feats.add("lit.enum")
            return rng.choice(list(t.values))
        if isinstance(t, GraphQLInputObjectType):
            self.feats.add("lit.object")
            parts = []
            for fname, f in t.fields.items():
                required = is_required_input_field(f)
                named = get_named_type(f.type)
                if isinstance(named, GraphQLInputObjectType) and not required and depth >= 1:
                    continue
                if required or rng.random() < 0.4:
                    parts.append("%s: %s" % (fname, self.literal(f.type, depth + 1)))
            return "{" + ", ".join(parts) + "}"
        name = t.name
        if name == "Int":
            return str(rng.choice([0, 5, -3, 100000]))
        if name == "Float":
            return rng.choice(["1.5", "-0.25", "2", "1e2"])
        if name == "Boolean":
            return rng.choice(["true", "false"])
        if name == "ID":
            return rng.choice(['"id-9"', "33"])
        if name == "String":
            self.feats.add("lit.string")
            return self.strlit()
        self.feats.add("lit.custom_scalar")
        return rng.choice(['"cs-lit"', "7", "true"])

    def print_type(self, t) -> str:
        return str(t)

    # ------------------------------------------------------------------ selections
    def args_for(self, fdef) -> str:
        parts = []
        for aname, a in fdef.args.items():
            required = is_required_argument(a)
            if not required and self.rng.random() < 0.5:
                continue
            if (not self.in_fragment or "frag.uses_variables" in self.dirty) and self.rng.random() < 0.7:
                vname = self.var_name()
                vtype = self.print_type(a.type)
                default = None
                r = self.rng.random()
                if not isinstance(a.type, GraphQLNonNull):
                    if r < 0.2:
                        vtype = vtype + "!"  # stricter variable than the argument is allowed
                        self.feats.add("var.stricter")
                    elif r < 0.45:
                        default = self.literal(a.type)
                        self.feats.add("var.default")
                elif r < 0.12 and not isinstance(get_named_type(a.type), GraphQLInputObjectType):
                    default = self.literal(a.type.of_type)  # `$limit: Int! = 10`: non-null AND defaulted
                    self.feats.add("var.default_on_nonnull")
                self.vars.append((vname, vtype, default))
                parts.append("%s: $%s" % (aname, vname))
                named = get_named_type(a.type)
                self.feats.add("var." + ("input" if isinstance(named, GraphQLInputObjectType) else "enum" if isinstance(named, GraphQLEnumType) else
                                         "custom_scalar" if (isinstance(named, GraphQLScalarType) and named.name not in ("String", "Int", "Float", "Boolean", "ID")) else "scalar"))
            else:
                parts.append("%s: %s" % (aname, self.literal(a.type)))
                self.feats.add("arg.literal")
        return "(" + ", ".join(parts) + ")" if parts else ""

    def directive(self, force: bool = False) -> str:
        if not self.use_directives or (not force and self.rng.random() > 0.12):
            return ""
        d = self.rng.choice(["skip", "include"])
        if (self.in_fragment and "frag.uses_variables" not in self.dirty) or self.rng.random() < 0.4:
            self.feats.add("directive.%s.literal" % d)
            return " @%s(if: %s)" % (d, self.rng.choice(["true", "false"]))
        vname = self.var_name()
        self.vars.append((vname, "Boolean!", None))
        self.feats.add("directive.%s.variable" % d)
        return " @%s(if: $%s)" % (d, vname)

    def tag(self, p: float = 0.2, const: bool = False) -> str:
        """The schema's own executable directive (switch dir.custom), at whatever location the caller is writing."""
        if not self.custom_dir or self.rng.random() > p:
            return ""
        self.feats.add("dir.custom.used")
        r = self.rng.random()
        if r < 0.3:
            return " @vfTag"
        if r < 0.6:
            return " @vfTag(label: %s)" % self.rng.choice(['"a b"', '"x"', "null"])
        if r < 0.8:
            return ' @vfTag(n: %d) @vfTag(label: "second")' % self.rng.randrange(0, 9)
        if const or (self.in_fragment and "frag.uses_variables" not in self.dirty):
            return " @vfTag(n: 3)"
        vname = self.var_name()
        self.vars.append((vname, self.rng.choice(["String", "String!"]), None))
        self.feats.add("dir.custom.variable_argument")
        return " @vfTag(label: $%s)" % vname

    def mixin(self) -> str:
        if not self.mixins or self.rng.random() > 0.2:
            return ""
        # user-supplied mixins: fields always use the last one and fragment definitions the first, so that the *user's* choice of mixins never
        # asks Python for contradictory base orders (X(.., A, B) in one class and Y(.., B, A) in another, both inherited by a third)
        mod, cls = self.mixins[-1]
        self.feats.add("mixin.on_field")
        return ' @mixin(from: "%s", import: "%s")' % (mod, cls)

    def field(self, parent, fname: str, depth: int, force_alias: bool = False, no_directive: bool = False) -> str:
        fdef = parent.fields[fname]
        named = get_named_type(fdef.type)
        args = self.args_for(fdef)
        alias = ""
        if args or force_alias or is_composite_type(named) or self.rng.random() < 0.15:
            alias = self.alias() + ": "
            self.feats.add("sel.alias")
        dirs = "" if no_directive else self.directive()
        s = "%s%s%s%s%s" % (alias, fname, args, dirs, self.tag() if self.custom_dir else "")
        if is_composite_type(named):
            s += self.mixin()
            s += " " + self.selection_set(named, depth - 1)
            self.feats.add("pos." + ("union" if isinstance(named, GraphQLUnionType) else "interface" if isinstance(named, GraphQLInterfaceType) else "object"))
            if "sel.field_merge" in self.dirty and alias and not args and not dirs and self.current_kind != "subscription" and self.rng.random() < 0.35:
                s += " " + self.merged_twin(parent, alias, fname, named, depth)
        elif "sel.field_merge" in self.dirty and not args and not alias and self.rng.random() < 0.1:
            s += " " + fname  # the same leaf twice
            self.feats.add("sel.field_merge.leaf")
        return s

    def merged_twin(self, parent, alias: str, fname: str, named, depth: int) -> str:
        """A second selection of the same field under the same response key with other sub-selections: the server merges them into one object
        (the validator's FieldsInSetCanMerge rule decides what may meet; aliases here are unique and un-aliased leaves are the same field)."""
        r = self.rng.random()
        if r < 0.4:
            self.feats.add("sel.field_merge.inline")
            return "%s%s %s" % (alias, fname, self.selection_set(named, max(0, depth - 2)))
        saved_in, saved_vars = self.in_fragment, self.vars
        self.in_fragment, self.vars = True, []
        try:
            body = "%s%s %s" % (alias, fname, self.selection_set(named, 0))
            fvars = self.vars
        finally:
            self.in_fragment, self.vars = saved_in, saved_vars
        if r < 0.6:
            self.vars.extend(v for v in fvars if not saved_in)
            self.feats.add("sel.field_merge.inline_fragment")
            return "... on %s { %s }" % (parent.name, body)
        name = "FragMerge%d" % self.uid()
        self.frags[name] = (parent.name, "fragment %s on %s { %s }" % (name, parent.name, body))
        self.frag_has_inline[name] = "... on" in body or "... {" in body
        self.frag_vars[name] = fvars
        self.feats.add("sel.field_merge.named_fragment")
        return "...%s" % name

    def leaf_fields(self, t) -> List[str]:
        return [n for n, f in t.fields.items() if is_leaf_type(get_named_type(f.type))]

    def object_fields(self, t, depth: int) -> List[str]:
        names = list(t.fields)
        if depth <= 0:
            names = self.leaf_fields(t)
        if not names:
            return []
        k = self.rng.randrange(1, min(4, len(names)) + 1)
        return self.rng.sample(names, k)

    def applicable_fragments(self, t) -> List[str]:
        out = []
        for name, (cond, _) in self.frags.items():
            ct = self.schema.type_map[cond]
            if cond == t.name:
                out.append(name)
            elif is_abstract_type(t) and isinstance(ct, GraphQLObjectType) and self.schema.is_sub_type(t, ct):
                out.append(name)
            elif is_abstract_type(ct) and ct is not t and self.schema.is_sub_type(ct, t):
                out.append(name)  # fragment on a super-interface / union spread at an object or sub-interface position
        return out

    def selection_set(self, t, depth: int) -> str:
        sels: List[str] = []
        rng = self.rng
        if isinstance(t, GraphQLUnionType) or isinstance(t, GraphQLInterfaceType):
            r = rng.random()
            if r < 0.3:
                if self.rng.random() < 0.25:
                    sels.append("%s: __typename" % self.alias())
                    self.feats.add("typename.aliased")
                elif self.use_directives and self.rng.random() < 0.3:
                    # an explicit, conditional __typename: the generator adds its own unconditional one, the authored one must stay as written
                    d = self.directive(force=True)
                    sels.append("__typename" + d)
                    self.feats.add("typename.conditional")
                else:
                    sels.append("__typename")
                    self.feats.add("typename.explicit")
            poss = self.possible(t)
            other_iface = None
            if "frag.inline.on_interface" in self.dirty and rng.random() < 0.7:
                cands = [i for i in self.schema.type_map.values() if isinstance(i, GraphQLInterfaceType) and i is not t and any(i in o.interfaces for o in poss)]
                if cands:
                    other_iface = rng.choice(cands)
            if isinstance(t, GraphQLInterfaceType):
                for fname in self.object_fields(t, depth):
                    if other_iface is not None and fname not in other_iface.fields and rng.random() < 0.8:
                        continue  # fields the other interface lacks mostly end in the listed ParsingError; keep most such cases generating
                    sels.append(self.field(t, fname, depth))
            chosen = rng.sample(poss, rng.randrange(0, len(poss) + 1)) if poss else []
            for ot in chosen:
                fs = self.object_fields(ot, depth)
                if not fs:
                    inner = "__typename"
                else:
                    inner = " ".join(self.field(ot, f, depth) for f in fs)
                sels.append("... on %s%s%s { %s }" % (ot.name, self.fragment_directive(), self.tag() if self.custom_dir else "", inner))
                self.feats.add("frag.inline.on_object")
            if "frag.inline.on_same_abstract" in self.dirty and rng.random() < 0.6:
                # `... on Node { id }` inside a Node-typed selection (or `... on SearchResult { __typename }` inside the union's): the type condition is the position's own abstract type
                fs = self.object_fields(t, 0) if isinstance(t, GraphQLInterfaceType) else []
                inner = " ".join(self.field(t, f, 0, force_alias=rng.random() < 0.5) for f in fs) if fs else "__typename"
                sels.insert(rng.randrange(0, len(sels) + 1), "... on %s%s { %s }" % (t.name, self.fragment_directive(), inner))
                self.feats.add("frag.inline.on_same_abstract")
            if other_iface is not None:
                it = other_iface
                fs = self.object_fields(it, 0)
                if fs:
                    sels.append("... on %s%s { %s }" % (it.name, self.fragment_directive(), " ".join(self.field(it, f, 0) for f in fs)))
                    self.feats.add("frag.inline.on_interface")
            if not sels:
                sels.append("__typename")
                self.feats.add("typename.explicit")
        else:
            if rng.random() < 0.08:
                sels.append("__typename" if rng.random() < 0.7 else "%s: __typename" % self.alias())
                self.feats.add("typename.on_object")
            for fname in self.object_fields(t, depth):
                sels.append(self.field(t, fname, depth))
            if rng.random() < 0.08:
                fs = self.object_fields(t, 0)
                if fs:
                    sels.append("... on %s { %s }" % (t.name, " ".join(self.field(t, f, 0, force_alias=True) for f in fs)))
                    self.feats.add("frag.inline.on_same_type")
            if rng.random() < 0.08:
                fs = self.object_fields(t, 0)
                if fs:
                    sels.append("... { %s }" % " ".join(self.field(t, f, 0, force_alias=True) for f in fs))
                    self.feats.add("frag.inline.no_condition")
            if not sels:
                sels.append("__typename")
        if self.use_fragments:
            app = self.applicable_fragments(t)
            many = "frag.many" in self.dirty or "shape.iface_hierarchy" in self.dirty or self.deep
            if app and rng.random() < (0.85 if many else 0.5):
                for name in rng.sample(app, rng.randrange(1, min(4 if many else 2, len(app)) + 1)):
                    sels.append("...%s%s%s" % (name, self.fragment_directive(), self.tag() if self.custom_dir else ""))
                    cond = self.frags[name][0]
                    if cond == t.name:
                        self.feats.add("frag.named.same_type" + ("_with_inline" if self.frag_has_inline.get(name) else ""))
                    elif is_abstract_type(self.schema.type_map[cond]) and self.schema.is_sub_type(self.schema.type_map[cond], t):
                        self.feats.add("frag.named.on_supertype" + ("_of_interface" if is_abstract_type(t) else ""))
                    else:
                        self.feats.add("frag.named.on_subtype")
            rng.shuffle(sels) if rng.random() < 0.3 else None
        return "{ " + " ".join(sels) + " }"

    def fragment_directive(self) -> str:
        if self.use_directives and self.rng.random() < 0.12:
            self.feats.add("directive.on_fragment")
            return " @%s(if: %s)" % (self.rng.choice(["skip", "include"]), self.rng.choice(["true", "false"]))
        return ""

    # ------------------------------------------------------------------ definitions
    def make_fragments(self, count: int) -> None:
        comps = [t for n, t in self.schema.type_map.items() if is_composite_type(t) and not n.startswith("__")
                 and t not in (self.schema.mutation_type, self.schema.subscription_type)]
        if not comps:
            return
        if "frag.many" in self.dirty:
            # many fragments on few types: base-class chains and diamonds become likely
            comps = self.rng.sample(comps, min(2, len(comps)))
            count = self.rng.randrange(5, 10)
        supers = [t for t in comps if isinstance(t, GraphQLInterfaceType) and any(
            isinstance(o, GraphQLInterfaceType) and t in o.interfaces for o in self.schema.type_map.values())]
        if "shape.iface_hierarchy" in self.dirty:
            count = max(count, 3)
        deep = self.deep = self.rng.random() < (0.5 if "frag.many" in self.dirty else 0.2)  # (same draw: only the threshold depends on the class)
        if deep:
            # long spread chains through nested fields: fragment -> field { ...fragment } -> field { ...fragment } ...
            count = max(count, self.rng.randrange(4, 8))
            self.feats.add("frag.deep_graph")
        forced_root = 2 if (self.schema.query_type in comps and self.rng.random() < 0.15) else 0
        for k_ in range(count + forced_root):
            t = self.rng.choice(supers) if (supers and "shape.iface_hierarchy" in self.dirty and self.rng.random() < 0.6) else self.rng.choice(comps)
            if k_ >= count:
                t = self.schema.query_type  # a pair of fragments on the root type: an operation can then be nothing but their spreads
            name = "Frag%s%d" % (self.rng.choice(["Alpha", "beta", "Gamma_x", "URL"]), self.uid())
            self.in_fragment = True
            saved_vars = self.vars
            self.vars = []
            try:
                text = self.selection_set(t, self.rng.randrange(1, 3) if deep else self.rng.randrange(0, 2))
                mix = self.tag(0.3) if self.custom_dir else ""
                self.frag_vars[name] = self.vars
            finally:
                self.in_fragment = False
                self.vars = saved_vars
            if self.frag_vars.get(name):
                self.feats.add("frag.uses_variables")
            if self.mixins and "mixin.on_fragment_def" in self.dirty and self.rng.random() < 0.3:
                mod, cls = self.mixins[0]
                mix += ' @mixin(from: "%s", import: "%s")' % (mod, cls)
                self.feats.add("mixin.on_fragment_def")
            self.frags[name] = (t.name, "fragment %s on %s%s %s" % (name, t.name, mix, text))
            self.frag_has_inline[name] = "... on" in text or "... {" in text
            kind = "union" if isinstance(t, GraphQLUnionType) else "interface" if isinstance(t, GraphQLInterfaceType) else "object"
            if t is self.schema.query_type:
                kind = "root"
            self.feats.add("frag.def.on_" + kind)

    def operation(self, kind: str, name: str) -> Optional[str]:
        root = {"query": self.schema.query_type, "mutation": self.schema.mutation_type, "subscription": self.schema.subscription_type}[kind]
        if root is None:
            return None
        self.vars = []
        self.used_vars = set()
        self.current_kind = kind
        names = list(root.fields)
        if kind == "subscription":
            chosen = [self.rng.choice(names)]
        else:
            chosen = self.rng.sample(names, self.rng.randrange(1, min(3, len(names)) + 1))
        root_frag = None
        if kind == "query" and self.use_fragments:
            app = [n for n, (cond, _) in self.frags.items() if cond == root.name]
            if app and self.rng.random() < 0.6:
                root_frag = self.rng.choice(app)
                if self.rng.random() < 0.5:
                    chosen = chosen[:1]  # a root fragment plus exactly one direct field
        second_root_frag = None
        if root_frag and len(app) >= 2 and self.rng.random() < 0.35:
            # the whole result (or most of it) comes from several fragments on the root type
            second_root_frag = self.rng.choice([n for n in app if n != root_frag])
            if self.rng.random() < 0.6:
                chosen = []
        sels = [self.field(root, f, self.max_depth, no_directive=(kind == "subscription")) for f in chosen]
        if root_frag:
            sels.insert(self.rng.randrange(0, len(sels) + 1), "..." + root_frag)
            self.feats.add("frag.named.on_root")
        if second_root_frag:
            sels.insert(self.rng.randrange(0, len(sels) + 1), "..." + second_root_frag)
            self.feats.add("frag.named.on_root.several")
        if kind != "subscription" and self.rng.random() < 0.05:
            sels.append("__typename")
            self.feats.add("typename.root")
        if self.frag_vars:
            # variables used inside fragments are declared by every operation that (transitively) spreads them
            import re as _re
            seen, todo = set(), _re.findall(r"\.\.\.\s*([A-Za-z_]\w*)", " ".join(sels))
            while todo:
                fname_ = todo.pop()
                if fname_ in seen or fname_ == "on" or fname_ not in self.frags:
                    continue
                seen.add(fname_)
                todo.extend(_re.findall(r"\.\.\.\s*([A-Za-z_]\w*)", self.frags[fname_][1]))
                for v in self.frag_vars.get(fname_, []):
                    if v[0] not in [x[0] for x in self.vars]:
                        self.vars.append(v)
        vars_s = ""
        if self.vars:
            vars_s = "(" + ", ".join("$%s: %s%s%s" % (n, t, " = " + d if d is not None else "", self.tag(0.15, const=True) if self.custom_dir else "") for n, t, d in self.vars) + ")"
        self.feats.add("op." + kind)
        optag = ""
        if self.custom_dir and self.rng.random() < 0.3:
            optag = self.rng.choice([" @vfTag", ' @vfTag(label: "op")', " @vfTag(n: 2) @vfTag"])
            self.feats.add("dir.custom.on_operation")
        return "%s %s%s%s { %s }" % (kind, name, vars_s, optag, " ".join(sels))


OP_NAMES = ["GetThing", "listItems", "fetch_all", "DoURLStuff", "op", "Run2Things", "XMLQuery", "getA",
            "GetEveryAccountHolderWithTheirPendingInvoicesAndOutstandingBalancesGroupedByBillingPeriodAndCurrency"]  # (longer than most file-name conventions expect)


def generate_document(schema: GraphQLSchema, seed: int, dirty: Optional[Set[str]] = None, n_ops: int = 3, max_depth: int = 3,
                      fragments: bool = True, directives: bool = True, mixins=None, kinds=("query", "mutation", "subscription"),
                      allow_subscription: bool = True):
    """-> (list of definition texts [fragments..., operations...], op names, feats)"""
    rng = random.Random(seed)
    g = OpGen(schema, rng, dirty, max_depth, fragments, directives, mixins)
    if fragments:
        g.make_fragments(rng.randrange(0, 5))
    ops = []
    names = []
    for i in range(n_ops):
        kind = rng.choice([k for k in kinds if k != "subscription" or allow_subscription])
        name = "%s%d" % (rng.choice(OP_NAMES), i)
        if i == 1 and names and rng.random() < 0.12:
            # two operations whose names differ only in letter case (getThing0 / Getthing0): distinct files, classes, methods and constants
            base0 = names[0]
            variant = base0[0] + base0[1:].lower() if base0[1:].lower() != base0[1:] else base0.upper()
            import re as _re

            def _snake(n_):
                return "_".join(w.lower() for w in _re.findall(r"[A-Z]?[a-z]+|[A-Z]+(?=[A-Z][a-z]|\d|\W|_|$)|\d+", n_))
            # (only pairs that stay distinct after the file-name mapping: merged pairs are C18's listed matter)
            if variant != base0 and _snake(variant) != _snake(base0) and variant.lower() != base0.lower().replace("_", "") + "_":
                name = variant
                g.feats.add("op.names_differ_in_case_only")
        text = g.operation(kind, name)
        if text is None:
            text = g.operation("query", name)
        ops.append(text)
        names.append(name)
    return [t for _, t in g.frags.values()], ops, names, g.feats
