"""Seeded generator of *valid* GraphQL schemas (SDL text).  Every decision that is known or suspected to
matter is a named feature switch; `feats` collects the switches a particular schema actually used.

The SDL is always re-validated with graphql-core by the caller (a rejected schema is a generator bug)."""
from __future__ import annotations

import keyword
import random
from dataclasses import dataclass, field
from typing import Dict, List, Optional, Set, Tuple

BUILTIN_SCALARS = ["String", "Int", "Float", "Boolean", "ID"]

OUT_WRAPPERS = ["{}", "{}!", "[{}]", "[{}!]", "[{}]!", "[{}!]!", "[[{}!]]", "[[{}]!]!"]
IN_WRAPPERS = ["{}", "{}!", "[{}]", "[{}!]", "[{}]!", "[{}!]!", "[[{}!]!]"]

DEEP_WRAPPERS = ["[[[[{}!]!]!]!]!", "[[[[{}!]!]!]!]", "[[[{}]]]", "[[[{}!]]!]!"]

WORDS = ["user", "name", "item", "count", "value", "status", "owner", "title", "code", "data", "node", "edge", "total", "price", "flag", "kind", "label", "score"]


@dataclass
class Arg:
    name: str
    type: str
    default: Optional[str] = None
    description: Optional[str] = None
    deprecated: Optional[str] = None


@dataclass
class Field:
    name: str
    type: str
    args: List[Arg] = field(default_factory=list)
    description: Optional[str] = None
    deprecated: Optional[str] = None


@dataclass
class SchemaSpec:
    enums: Dict[str, List[str]] = field(default_factory=dict)
    scalars: List[str] = field(default_factory=list)
    inputs: Dict[str, List[Arg]] = field(default_factory=dict)
    interfaces: Dict[str, Tuple[List[str], List[Field]]] = field(default_factory=dict)  # name -> (implements, fields)
    objects: Dict[str, Tuple[List[str], List[Field]]] = field(default_factory=dict)
    unions: Dict[str, List[str]] = field(default_factory=dict)
    roots: Dict[str, Optional[str]] = field(default_factory=dict)
    directives: List[str] = field(default_factory=list)
    descriptions: Dict[str, str] = field(default_factory=dict)  # type name -> description
    enum_value_meta: Dict[Tuple[str, str], Tuple[Optional[str], Optional[str]]] = field(default_factory=dict)
    specified_by: Dict[str, str] = field(default_factory=dict)
    schema_description: Optional[str] = None
    explicit_schema_block: bool = False
    extend: Dict[str, int] = field(default_factory=dict)  # type name -> number of members kept in the base definition; the rest arrives in an `extend ...` block

    def definitions(self) -> List[str]:
        """One SDL string per top-level definition (used to partition a schema into files)."""
        out = []

        def desc(d, indent=""):
            if d is None:
                return ""
            if "\n" in d or '"' in d or "\\" in d:
                body = d.replace('"""', '\\"""')
                return '%s"""\n%s%s\n%s"""\n' % (indent, indent, body.replace("\n", "\n" + indent), indent)
            return '%s"%s"\n' % (indent, d)

        def args_s(args: List[Arg]) -> str:
            if not args:
                return ""
            parts = []
            for a in args:
                s = "%s%s: %s" % (desc(a.description).replace("\n", " ") if a.description else "", a.name, a.type)
                if a.default is not None:
                    s += " = " + a.default
                if a.deprecated is not None:
                    s += ' @deprecated(reason: "%s")' % a.deprecated
                parts.append(s)
            return "(" + ", ".join(parts) + ")"

        def fields_s(fields: List[Field]) -> str:
            lines = []
            for f in fields:
                s = desc(f.description, "  ") + "  %s%s: %s" % (f.name, args_s(f.args), f.type)
                if f.deprecated is not None:
                    s += ' @deprecated(reason: "%s")' % f.deprecated if f.deprecated else " @deprecated"
                lines.append(s)
            return "\n".join(lines)

        if self.explicit_schema_block or self.schema_description:
            ops = ["  %s: %s" % (k, v) for k, v in self.roots.items() if v]
            out.append(desc(self.schema_description) + "schema {\n%s\n}" % "\n".join(ops))
        for d in self.directives:
            out.append(d)
        for s in self.scalars:
            sb = ' @specifiedBy(url: "%s")' % self.specified_by[s] if s in self.specified_by else ""
            out.append(desc(self.descriptions.get(s)) + "scalar %s%s" % (s, sb))
        later: List[str] = []  # `extend ...` blocks: after every base definition (a partition into files may still put them anywhere)

        def split(name, members):
            k = self.extend.get(name)
            if k is None or not (0 < k < len(members)):
                return members, []
            return members[:k], members[k:]

        for name, values in self.enums.items():
            def enum_lines(vs):
                lines = []
                for v in vs:
                    d, dep = self.enum_value_meta.get((name, v), (None, None))
                    lines.append(desc(d, "  ") + "  " + v + (' @deprecated(reason: "%s")' % dep if dep else ""))
                return "\n".join(lines)
            base, ext = split(name, values)
            out.append(desc(self.descriptions.get(name)) + "enum %s {\n%s\n}" % (name, enum_lines(base)))
            if ext:
                later.append("extend enum %s {\n%s\n}" % (name, enum_lines(ext)))
        for name, fields in self.inputs.items():
            def input_lines(fs):
                lines = []
                for a in fs:
                    s = desc(a.description, "  ") + "  %s: %s" % (a.name, a.type)
                    if a.default is not None:
                        s += " = " + a.default
                    if a.deprecated is not None:
                        s += ' @deprecated(reason: "%s")' % a.deprecated
                    lines.append(s)
                return "\n".join(lines)
            base, ext = split(name, fields)
            out.append(desc(self.descriptions.get(name)) + "input %s {\n%s\n}" % (name, input_lines(base)))
            if ext:
                later.append("extend input %s {\n%s\n}" % (name, input_lines(ext)))
        for name, (impl, fields) in self.interfaces.items():
            imp = " implements " + " & ".join(impl) if impl else ""
            base, ext = split(name, fields)
            out.append(desc(self.descriptions.get(name)) + "interface %s%s {\n%s\n}" % (name, imp, fields_s(base)))
            if ext:
                later.append("extend interface %s {\n%s\n}" % (name, fields_s(ext)))
        for name, (impl, fields) in self.objects.items():
            base, ext = split(name, fields)
            if ext and impl and len(impl) > 1:
                # the last interface is declared by the extension (`extend type X implements I { ... }`)
                imp = " implements " + " & ".join(impl[:-1])
                later.append("extend type %s implements %s {\n%s\n}" % (name, impl[-1], fields_s(ext)))
            else:
                imp = " implements " + " & ".join(impl) if impl else ""
                if ext:
                    later.append("extend type %s {\n%s\n}" % (name, fields_s(ext)))
            out.append(desc(self.descriptions.get(name)) + "type %s%s {\n%s\n}" % (name, imp, fields_s(base)))
        for name, members in self.unions.items():
            base, ext = split(name, members)
            out.append(desc(self.descriptions.get(name)) + "union %s = %s" % (name, " | ".join(base)))
            if ext:
                later.append("extend union %s = %s" % (name, " | ".join(ext)))
        return out + later

    def sdl(self) -> str:
        return "\n\n".join(self.definitions()) + "\n"


def base_of(t: str) -> str:
    return t.replace("[", "").replace("]", "").replace("!", "")


_BUNDLED_ATTRS: Optional[List[str]] = None


def bundled_base_model_attributes() -> List[str]:
    """Public attributes of the BaseModel the generator ships (dependencies/base_model.py of the tree under test) that pydantic's own BaseModel lacks."""
    global _BUNDLED_ATTRS
    if _BUNDLED_ATTRS is None:
        try:
            import importlib.util
            import os

            import pydantic
            repo = os.environ.get("VERIF_REPO", "/repo")
            spec = importlib.util.spec_from_file_location("_vf_bundled_base_model", os.path.join(repo, "ariadne_codegen/client_generators/dependencies/base_model.py"))
            mod = importlib.util.module_from_spec(spec)
            spec.loader.exec_module(mod)
            _BUNDLED_ATTRS = sorted(a for a in set(dir(mod.BaseModel)) - set(dir(pydantic.BaseModel)) if not a.startswith("_"))
        except Exception:  # noqa: BLE001
            _BUNDLED_ATTRS = []
    return _BUNDLED_ATTRS


class Names:
    """Unique names drawn from name classes; uniqueness is by a running counter so that no two
    names of a schema collide after snake-casing unless a dirty switch asks for it."""

    def __init__(self, rng: random.Random, feats: Set[str], dirty: Set[str]):
        self.rng = rng
        self.n = 0
        self.feats = feats
        self.dirty = dirty
        self.used: Set[str] = set()

    def _uniq(self, s: str) -> str:
        while s in self.used or s.lower() in self.used:
            self.n += 1
            s = "%s%d" % (s.rstrip("0123456789"), self.n)
        self.used.add(s)
        self.used.add(s.lower())
        return s

    def type_name(self, prefix: str) -> str:
        self.n += 1
        w = self.rng.choice(WORDS).capitalize()
        # several spellings per kind (picked without consuming randomness) so that the ALPHABETICAL order of interface, object, union and input names is not fixed
        # by their kind: `sorted(...)` over type names decides class order, union member order and which class is "first" in many places of a generator
        alt = {"If": ["If", "Zi", "Ab"], "Ob": ["Ob", "Ty", "Ac"], "Un": ["Un", "Au"], "In": ["In", "Zn"]}.get(prefix)
        if alt:
            prefix = alt[(self.n + len(w)) % len(alt)]
        return self._uniq("%s%s%d" % (prefix, w, self.n))

    DIRTY_POOLS = {
        "names.keyword": ["class", "from", "import", "in", "is", "global", "pass", "def", "None", "lambda", "yield", "async", "await", "not", "True"],
        "names.soft_keyword": ["match", "type", "case"],
        "names.pydantic_attr": ["copy", "json", "dict", "schema", "construct", "validate", "fields",
                                "modelDump", "schemaJson", "parseObj", "modelFields", "fromOrm", "modelCopy", "modelExtra"],
        "names.leading_underscore": ["_private", "_Private2", "_camelCase", "_x", "_id", "_from", "_class", "_in", "_json", "_copy"],
        "names.builtin": ["id", "list", "str", "type_", "object", "print", "self", "cls"],
        "names.method_locals": ["query", "variables", "response", "data", "kwargs", "operation_name"],
        "names.underscore_digit": ["_1", "_2x", "_3_a"],
        "names.dunder_like": ["typename__", "a__b", "x_"],
    }

    def member(self, kind: str = "field") -> str:
        """field / argument / input-field / variable / alias names"""
        if kind == "field" and "names.pydantic_attr" in self.dirty:
            # names the tree under test adds to the generated package's own BaseModel (none on the unchanged tree): as names of object fields, where a result model
            # meets them (the general pool below spreads its names over arguments, input fields and object fields alike)
            own = [p for p in bundled_base_model_attributes() if p not in self.used and p.lower() not in self.used]
            if own and self.rng.random() < 0.5:
                self.feats.add("names.pydantic_attr")
                return self._uniq(self.rng.choice(own))
        for cls_name, pool in self.DIRTY_POOLS.items():
            if cls_name in self.dirty and self.rng.random() < 0.3:
                free = [p for p in pool if p not in self.used and p.lower() not in self.used]
                if cls_name == "names.pydantic_attr":
                    # whatever the tree under test adds to the generated package's own BaseModel is a name a user's field may have as well: those first
                    own = [p for p in bundled_base_model_attributes() if p not in self.used and p.lower() not in self.used]
                    free = own or free
                if free:
                    self.feats.add(cls_name)
                    return self._uniq(self.rng.choice(free))
        self.n += 1
        n = self.n
        a, b = self.rng.choice(WORDS), self.rng.choice(WORDS)
        style = self.rng.randrange(7)
        if style == 0:
            self.feats.add("names.plain")
            return self._uniq("%s%d" % (a, n))
        if style in (1, 2):
            self.feats.add("names.camel")
            return self._uniq("%s%s%d" % (a, b.capitalize(), n))
        if style == 3:
            self.feats.add("names.snake")
            return self._uniq("%s_%s_%d" % (a, b, n))
        if style == 4:
            self.feats.add("names.upper_run")
            return self._uniq("%sURL%s%d" % (a, b.capitalize(), n))
        if style == 5:
            self.feats.add("names.digit_inside")
            return self._uniq("%s2%s%d" % (a, b.capitalize(), n))
        self.feats.add("names.pascal")
        return self._uniq("%s%s%d" % (a.capitalize(), b.capitalize(), n))

    ENUM_DIRTY = {
        "enum.keyword_value": ["class", "from", "None", "import", "pass", "in"],
        "enum.reserved_value": ["mro", "name", "value", "_ignore_", "_order_", "_missing_", "_generate_next_value_"],
        "enum.lowercase_value": ["red", "camelCase", "snake_case"],
    }

    # (and Python soft keywords, which are ordinary attribute names)
    STR_METHOD_VALUES = ["count", "title", "index", "lower", "upper", "format", "strip", "encode", "join", "split", "find", "replace", "match", "case", "type"]

    def enum_value(self) -> str:
        for cls_name, pool in self.ENUM_DIRTY.items():
            if cls_name in self.dirty and self.rng.random() < 0.4:
                free = [p for p in pool if p not in self.used and p.lower() not in self.used]
                if free:
                    self.feats.add(cls_name)
                    return self._uniq(self.rng.choice(free))
        if self.rng.random() < 0.12:
            # legal value names that are also attributes of str (the generated enums subclass str): members must win over the inherited methods
            free = [p for p in self.STR_METHOD_VALUES if p not in self.used]
            if free:
                self.feats.add("enum.str_method_value")
                return self._uniq(self.rng.choice(free))
        self.n += 1
        a = self.rng.choice(WORDS).upper()
        style = self.rng.randrange(4)
        if style == 0:
            return self._uniq("%s_%d" % (a, self.n))
        if style == 1:
            return self._uniq("%s%d" % (a.lower(), self.n))
        if style == 2:
            return self._uniq("%s%s%d" % (a.capitalize(), self.rng.choice(WORDS).capitalize(), self.n))
        return self._uniq("%s_%s_%d" % (a, self.rng.choice(WORDS).upper(), self.n))


CUSTOM_DIRECTIVE = "vfTag"
CUSTOM_DIRECTIVE_SDL = ("directive @vfTag(label: String, n: Int = 1) repeatable on QUERY | MUTATION | SUBSCRIPTION | FIELD | FRAGMENT_DEFINITION | "
                        "FRAGMENT_SPREAD | INLINE_FRAGMENT | VARIABLE_DEFINITION")

STRING_DEFAULTS = ['"plain"', '""', '"with \\"quotes\\""', '"back\\\\slash"', '"uni ☃ é"', '"it\'s"', '"a#b=c{d}"']


class SchemaGen:
    """dirty: set of dirty feature switches enabled for this schema (see DESIGN.md appendix B)."""

    def __init__(self, rng: random.Random, dirty: Optional[Set[str]] = None, size: str = "m", descriptions: bool = False):
        self.rng = rng
        self.feats: Set[str] = set()
        self.dirty = dirty or set()
        self.names = Names(rng, self.feats, self.dirty)
        self.spec = SchemaSpec()
        self.size = size
        self.with_descriptions = descriptions

    # ---- literals --------------------------------------------------------------
    def literal(self, t: str, depth: int = 0, allow_null: bool = True) -> str:
        """A GraphQL const literal valid for input type `t`."""
        rng = self.rng
        if t.endswith("!"):
            return self.literal(t[:-1], depth, allow_null=False)
        if allow_null and rng.random() < 0.12:
            self.feats.add("default.null")
            return "null"
        if t.startswith("["):
            inner = t[1:-1]
            n = rng.randrange(0, 3)
            self.feats.add("default.list" if depth == 0 else "default.nested_list")
            return "[" + ", ".join(self.literal(inner, depth + 1) for _ in range(n)) + "]"
        if t == "Int":
            self.feats.add("default.int")
            return str(rng.choice([0, 1, -7, 42, 2147483647]))
        if t == "Float":
            self.feats.add("default.float")
            return rng.choice(["0.5", "-1.25", "3.0", "1e3", "7", "1.0", "0.0", "1", "0"])  # (1.0 == 1 == True and 0.0 == 0 == False in Python: the kinds must not be confused)
        if t == "String":
            self.feats.add("default.string")
            return rng.choice(STRING_DEFAULTS if "strdefault.quotes" in self.dirty or True else STRING_DEFAULTS[:2])
        if t == "ID":
            self.feats.add("default.id")
            return rng.choice(['"id-1"', "17"])
        if t == "Boolean":
            self.feats.add("default.bool")
            return rng.choice(["true", "false"])
        if t in self.spec.enums:
            self.feats.add("default.enum" if depth == 0 else "default.enum_nested")
            if "enum.keyword_value" in self.dirty:
                kw = [v for v in self.spec.enums[t] if keyword.iskeyword(v)]
                if kw and rng.random() < 0.6:
                    self.feats.add("default.enum_keyword_value")
                    return rng.choice(kw)
            return rng.choice(self.spec.enums[t])
        if t in self.spec.scalars:
            self.feats.add("default.custom_scalar")
            return rng.choice(['"cs-default"', "12"])
        if t in self.spec.inputs:
            self.feats.add("default.object" if depth == 0 else "default.object_nested")
            parts = []
            for a in self.spec.inputs[t]:
                required = a.type.endswith("!") and a.default is None
                if base_of(a.type) in self.spec.inputs and not required:
                    continue  # optional references may point forward: a default through them could be cyclic
                if required or (depth < 2 and rng.random() < 0.5):
                    parts.append("%s: %s" % (a.name, self.literal(a.type, depth + 1)))
            return "{" + ", ".join(parts) + "}"
        raise KeyError(t)

    # ---- types -------------------------------------------------------------------
    def in_type(self, allow_inputs: List[str], wrappers=None) -> str:
        rng = self.rng
        pool = list(BUILTIN_SCALARS)
        pool += list(self.spec.enums) * 2
        pool += list(self.spec.scalars)
        pool += allow_inputs * 2
        base = rng.choice(pool)
        w = rng.choice(wrappers or IN_WRAPPERS)
        if "wrap.deep" in self.dirty and wrappers is None and rng.random() < 0.15:
            w = rng.choice(DEEP_WRAPPERS)  # up to nine wrappers: the deepest type reference the default introspection query still resolves
        self.feats.add("in.wrap." + w.format("T"))
        return w.format(base)

    def out_type(self, composite_bias: float = 0.5) -> str:
        rng = self.rng
        comp = list(self.spec.objects) + list(self.spec.interfaces) * 2 + list(self.spec.unions) * 2
        leaf = list(BUILTIN_SCALARS) + list(self.spec.enums) + list(self.spec.scalars)
        base = rng.choice(comp) if (comp and rng.random() < composite_bias) else rng.choice(leaf)
        w = rng.choice(OUT_WRAPPERS)
        if "wrap.deep" in self.dirty and rng.random() < 0.15:
            w = rng.choice(DEEP_WRAPPERS)
        self.feats.add("out.wrap." + w.format("T"))
        return w.format(base)

    def make_args(self, n_max: int = 2) -> List[Arg]:
        args = []
        for _ in range(self.rng.randrange(0, n_max + 1)):
            t = self.in_type(list(self.spec.inputs))
            default = None
            if self.rng.random() < 0.3:
                default = self.literal(t)
                self.feats.add("arg.default")
            args.append(Arg(self.names.member("arg"), t, default))
        return args

    def make_field(self, composite_bias: float = 0.5) -> Field:
        f = Field(self.names.member("field"), self.out_type(composite_bias), self.make_args())
        if self.with_descriptions and self.rng.random() < 0.4:
            f.description = self.description()
        if self.with_descriptions and self.rng.random() < 0.15:
            f.deprecated = self.rng.choice(["No longer supported", "use other", "say \\\"hi\\\""])
        return f

    def description(self) -> str:
        return self.rng.choice(["Simple description", "Has \"quotes\" inside", "Multi\nline\ndescription", "Back\\slash", "Unicode ☃ é", "  leading space kept? ", "it's"])

    # ---- whole schema ---------------------------------------------------------------
    def generate(self) -> SchemaSpec:
        rng, spec, names = self.rng, self.spec, self.names
        scale = {"s": 1, "m": 2, "l": 3}[self.size]
        for _ in range(rng.randrange(1, 2 + scale)):
            ename = names.type_name("E")
            spec.enums[ename] = [names.enum_value() for _ in range(rng.randrange(1, 5))]
        for _ in range(rng.randrange(1 if "schema.force_scalar" in self.dirty else 0, 3)):
            spec.scalars.append(names.type_name("Sc"))
        # input objects: a field may reference earlier inputs with any wrapper, itself/later ones only nullably or in lists
        in_names = [names.type_name("In") for _ in range(rng.randrange(1, 2 + scale))]
        for i, iname in enumerate(in_names):
            spec.inputs[iname] = []
        for i, iname in enumerate(in_names):
            fields = []
            for _ in range(rng.randrange(1, 6)):
                r = rng.random()
                if r < 0.25 and i > 0:
                    t = rng.choice(IN_WRAPPERS).format(rng.choice(in_names[:i]))
                    self.feats.add("input.ref_earlier")
                elif r < 0.4:
                    t = rng.choice(["{}", "[{}]", "[{}!]"]).format(rng.choice(in_names[i:]))
                    self.feats.add("input.recursive")
                else:
                    t = self.in_type([])
                if "input.nonnull_list_nullable_item" not in self.dirty and t.endswith("]!") and not t.endswith("!]!"):
                    pass  # `[T]!` stays on: the D7 repair makes it clean
                fields.append(Arg(names.member("infield"), t))
            spec.inputs[iname] = fields
        # defaults only after all inputs exist (object literals need the field lists); keep literals for earlier inputs only
        for i, iname in enumerate(in_names):
            for a in spec.inputs[iname]:
                b = base_of(a.type)
                if rng.random() < 0.35 and (b not in spec.inputs or in_names.index(b) < i):
                    a.default = self.literal(a.type)
                    self.feats.add("input.default")
        # interfaces
        hierarchy = "shape.iface_hierarchy" in self.dirty
        several = hierarchy or "frag.inline.on_interface" in self.dirty  # overlapping interfaces need at least two of them
        iface_names = [names.type_name("If") for _ in range(rng.randrange(2, 4) if several else rng.randrange(0, 1 + scale))]
        for i, n in enumerate(iface_names):
            spec.interfaces[n] = ([], [])
        obj_names = [names.type_name("Ob") for _ in range(rng.randrange(2, 3 + 2 * scale))]
        if iface_names and names.n % 3 == 0:
            # BaseUser / User, Node / NodeEdge: one type name contained in another (decided without consuming randomness, so other draws keep their values)
            short = iface_names[0][2:]
            if short not in names.used and short.lower() not in names.used:
                names.used.update((short, short.lower()))
                obj_names[0] = short
                self.feats.add("names.type_contained_in_interface")
        for n in obj_names:
            spec.objects[n] = ([], [])
        for _ in range(rng.randrange(0, 1 + scale)):
            u = names.type_name("Un")
            spec.unions[u] = rng.sample(obj_names, rng.randrange(1, min(4, len(obj_names)) + 1))
        for i, n in enumerate(iface_names):
            fields = [self.make_field(0.35) for _ in range(rng.randrange(1, 4))]
            impl: List[str] = []
            if i > 0 and (hierarchy or rng.random() < 0.5):
                parent = rng.choice(iface_names[:i])
                impl = [parent] + list(spec.interfaces[parent][0])
                self.feats.add("pos.interface_of_interface")
                for p in impl:
                    for f in spec.interfaces[p][1]:
                        if f.name not in [x.name for x in fields]:
                            fields.append(f)
            spec.interfaces[n] = (impl, fields)
        for n in obj_names:
            fields = [self.make_field(0.45) for _ in range(rng.randrange(1, 5))]
            impl = []
            for iface in iface_names:
                if (rng.random() < 0.5) or n in iface:
                    for p in [iface] + list(spec.interfaces[iface][0]):
                        if p not in impl:
                            impl.append(p)
            for p in impl:
                for f in spec.interfaces[p][1]:
                    if f.name not in [x.name for x in fields]:
                        if not f.type.endswith("!") and rng.random() < 0.3:
                            # covariant refinement: the object promises non-null where the interface allows null
                            f = Field(f.name, f.type + "!", f.args, f.description, f.deprecated)
                            self.feats.add("out.covariant_nonnull")
                        fields.append(f)
            spec.objects[n] = (impl, fields)
        # every interface needs no implementer to be valid, but operations want some: make sure each has one
        for iface in iface_names:
            if not any(iface in impl for impl, _ in spec.objects.values()):
                n = rng.choice(obj_names)
                impl, fields = spec.objects[n]
                for p in [iface] + list(spec.interfaces[iface][0]):
                    if p not in impl:
                        impl.append(p)
                        for f in spec.interfaces[p][1]:
                            if f.name not in [x.name for x in fields]:
                                fields.append(f)
        custom_roots = rng.random() < 0.25
        q = names.type_name("RootQ") if custom_roots else "Query"
        spec.roots["query"] = q
        spec.objects[q] = ([], [self.make_field(0.8) for _ in range(rng.randrange(2, 4 + scale))])
        if rng.random() < 0.6:
            m = names.type_name("RootM") if custom_roots else "Mutation"
            spec.roots["mutation"] = m
            spec.objects[m] = ([], [self.make_field(0.6) for _ in range(rng.randrange(1, 3))])
        if rng.random() < 0.4:
            s = names.type_name("RootS") if custom_roots else "Subscription"
            spec.roots["subscription"] = s
            spec.objects[s] = ([], [self.make_field(0.5) for _ in range(rng.randrange(1, 3))])
        spec.explicit_schema_block = custom_roots or rng.random() < 0.2
        if custom_roots:
            self.feats.add("schema.custom_root_names")
        if self.with_descriptions:
            for tname in list(spec.enums) + list(spec.inputs) + list(spec.objects) + list(spec.interfaces) + list(spec.unions) + list(spec.scalars):
                if rng.random() < 0.4:
                    spec.descriptions[tname] = self.description()
        if "names.pydantic_attr" in self.dirty:
            # whatever the tree under test adds to the bundled BaseModel (nothing on the unchanged tree) is also a required leaf of every object type that
            # lacks the name: a result model meets it wherever that object is selected
            for own in bundled_base_model_attributes()[:3]:
                for oname, (impl, fields) in spec.objects.items():
                    if oname not in spec.roots.values() and own not in [f.name for f in fields] and not any(own in [f.name for f in spec.interfaces[i][1]] for i in impl):
                        fields.insert(0, Field(own, "ID!"))
                        self.feats.add("names.pydantic_attr.bundled_on_every_object")
        if "dir.custom" in self.dirty:
            # a directive of the server's own for every executable location: the client has to send it as written and must not read a meaning into it
            spec.directives.append(CUSTOM_DIRECTIVE_SDL)
            self.feats.add("dir.custom")
        if "schema.extend" in self.dirty:
            # rarely used, perfectly legal: part of a type's members arrives in `extend ...` blocks (own random stream: no other draw moves)
            erng = random.Random(rng.random())
            for tname, members in ([(n, v) for n, v in spec.enums.items()] + [(n, v) for n, v in spec.inputs.items()] + [(n, v[1]) for n, v in spec.interfaces.items()]
                                   + [(n, v[1]) for n, v in spec.objects.items()] + [(n, v) for n, v in spec.unions.items()]):
                if len(members) >= 2 and erng.random() < 0.5:
                    spec.extend[tname] = erng.randrange(1, len(members))
                    self.feats.add("schema.extend")
        return spec


def generate_schema(seed: int, dirty: Optional[Set[str]] = None, size: str = "m", descriptions: bool = False):
    """-> (SchemaSpec, feats). Validity is checked by the caller with graphql-core."""
    g = SchemaGen(random.Random(seed), dirty, size, descriptions)
    spec = g.generate()
    return spec, g.feats, g
