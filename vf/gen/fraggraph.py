"""Small-scope generator of *fragment usage graphs*: a fixed schema, two or three named fragments with chosen spread relations between them (at the top level of
the spreading fragment, or inside one of its fields), and two or three operations each of which uses a chosen subset of the fragments at chosen positions (a position of
the fragment's own type, where the fragment can become a base class; a position of another overlapping type, where it has to be unpacked; under @include).

What one operation needs from the generator here depends on what the other operations and fragments made it do (which fragments are base classes somewhere, which are only
unpacked, which are reached only through another fragment): the space is small enough to be sampled densely, and every sampled document is run in the given and in the
reversed definition order."""
from __future__ import annotations

import random
from typing import Dict, List, Optional, Tuple

SDL = """type Query {
  node: Node
  item: Item!
  box: Box
  entity: Entity
  crate: Crate
}

interface Node {
  id: ID!
  name: String!
}

interface Entity implements Node {
  id: ID!
  name: String!
  rank: Int
}

type Item implements Node & Entity {
  id: ID!
  name: String!
  rank: Int
  weight: Int!
  owner: Node
  inner: Item
  box: Box!
}

type Crate implements Node {
  id: ID!
  name: String!
  size: Int
  holds: [Node!]!
}

type Box {
  label: String!
  content: Node!
  item: Item
  ent: Entity
  next: Box
}
"""

# type -> own leaf fields, and composite fields (name -> type)
LEAVES = {"Node": ["id", "name"], "Entity": ["id", "name", "rank"], "Item": ["id", "name", "rank", "weight"], "Crate": ["id", "name", "size"], "Box": ["label"], "Query": []}
COMPOSITE = {"Node": {}, "Entity": {}, "Item": {"owner": "Node", "inner": "Item", "box": "Box"}, "Crate": {"holds": "Node"}, "Box": {"content": "Node", "item": "Item", "ent": "Entity", "next": "Box"},
             "Query": {"node": "Node", "item": "Item", "box": "Box", "entity": "Entity", "crate": "Crate"}}
POSSIBLE = {"Node": {"Item", "Crate"}, "Entity": {"Item"}, "Item": {"Item"}, "Crate": {"Crate"}, "Box": {"Box"}, "Query": {"Query"}}
FRAG_TYPES = ["Node", "Item", "Entity", "Box", "Crate", "Node", "Item"]


ABSTRACT = {"Node", "Entity"}


def overlap(a: str, b: str) -> bool:
    """May a fragment on type b be spread at a position of type a?  (A fragment on one abstract type at a position of ANOTHER abstract type is the region of a listed
    finding - fields of implementing objects are dropped - and is driven where that finding is switched on, not here.)"""
    if a in ABSTRACT and b in ABSTRACT and a != b and not POSSIBLE[a] <= POSSIBLE[b]:
        return False  # (a fragment on a SUPER-interface at a sub-interface position is fine: every object there implements it)
    return bool(POSSIBLE[a] & POSSIBLE[b])


def paths_to(target_overlapping: str, same: Optional[bool]) -> List[Tuple[List[str], str]]:
    """Field paths from Query (length 1-2) whose end type overlaps the given type. same=True: exactly that type; False: another type; None: any."""
    out = []
    for f1, t1 in COMPOSITE["Query"].items():
        if overlap(t1, target_overlapping) and (same is None or (t1 == target_overlapping) == same):
            out.append(([f1], t1))
        for f2, t2 in COMPOSITE[t1].items():
            if overlap(t2, target_overlapping) and (same is None or (t2 == target_overlapping) == same):
                out.append(([f1, f2], t2))
    return out


def generate(seed: int) -> Optional[Dict[str, object]]:
    rng = random.Random(seed)
    n_frag = rng.choice([2, 3, 3, 3, 4])
    names = ["Frag%s" % c for c in "ABCD"[:n_frag]]
    rng.shuffle(names)  # alphabetical order of the names is independent of the dependency order
    types = [rng.choice(FRAG_TYPES) for _ in names]
    feats = set()
    # spread relations i -> j for i < j (acyclic by construction)
    bodies: List[List[str]] = []
    for i, (n, t) in enumerate(zip(names, types)):
        sels = rng.sample(LEAVES[t], rng.randrange(1, len(LEAVES[t]) + 1))
        if rng.random() < 0.15:
            sels.insert(0, "__typename")
        bodies.append(sels)
    nested_children: List[Dict[str, List[str]]] = [dict() for _ in names]
    for i in range(n_frag):
        for j in range(i + 1, n_frag):
            rel = rng.choice(["none", "none", "top", "nested", "nested"])
            if rel == "top" and overlap(types[i], types[j]):
                cond = rng.random() < 0.15
                bodies[i].append("...%s%s" % (names[j], " @include(if: true)" if cond else ""))
                feats.add("fraggraph.spread.top" + (".conditional" if cond else "") + (".same_type" if types[i] == types[j] else ".other_type"))
            elif rel == "nested":
                fields = [(f, ft) for f, ft in COMPOSITE[types[i]].items() if overlap(ft, types[j])]
                if fields:
                    f, ft = rng.choice(fields)
                    nested_children[i].setdefault(f, []).append("...%s" % names[j])
                    feats.add("fraggraph.spread.nested" + (".same_type" if ft == types[j] else ".other_type"))
    frag_texts = []
    for i, (n, t) in enumerate(zip(names, types)):
        sels = list(bodies[i])
        for f, spreads in nested_children[i].items():
            ft = COMPOSITE[t][f]
            own = rng.sample(LEAVES[ft], 1) if LEAVES[ft] and rng.random() < 0.7 else []
            sels.append("%s { %s }" % (f, " ".join(own + spreads)))
        frag_texts.append("fragment %s on %s { %s }" % (n, t, " ".join(sels)))
    # operations
    n_ops = rng.choice([2, 2, 3])
    op_texts, op_names = [], []
    for k in range(n_ops):
        tree: Dict[str, object] = {}

        def at(path: List[str]) -> Dict[str, object]:
            cur = tree
            for p in path:
                cur = cur.setdefault(p, {})  # type: ignore[assignment]
            return cur  # type: ignore[return-value]
        used_any = False
        for n, t in zip(names, types):
            how = rng.choice(["no", "no", "same", "same", "other", "conditional"])
            if how == "no":
                continue
            cands = paths_to(t, same=True if how in ("same", "conditional") else False) or paths_to(t, None)
            if not cands:
                continue
            path, pt = rng.choice(cands)
            node = at(path)
            node.setdefault("__spreads__", []).append("...%s%s" % (n, " @include(if: $flag%d)" % k if how == "conditional" else ""))  # type: ignore[union-attr]
            used_any = True
            feats.add("fraggraph.use." + how + ("" if how != "other" else (".at_subtype" if POSSIBLE[pt] < POSSIBLE[t] else ".at_supertype")))
        if not used_any:
            n0, t0 = names[0], types[0]
            path, _ = rng.choice(paths_to(t0, None))
            at(path).setdefault("__spreads__", []).append("...%s" % n0)  # type: ignore[union-attr]

        def render(node: Dict[str, object], tname: str) -> str:
            parts: List[str] = []
            if LEAVES[tname] and rng.random() < 0.6:
                parts.append(rng.choice(LEAVES[tname]))
            for key, sub in node.items():
                if key == "__spreads__":
                    continue
                parts.append("%s %s" % (key, render(sub, COMPOSITE[tname][key])))  # type: ignore[arg-type]
            parts.extend(node.get("__spreads__", []))  # type: ignore[arg-type]
            if not parts:
                parts.append("__typename")
            if rng.random() < 0.3:
                rng.shuffle(parts)
            return "{ " + " ".join(parts) + " }"
        body = render(tree, "Query")
        uses_flag = "$flag%d" % k in body
        name = ["GetFirst", "listSecond", "Third_op"][k]
        op_names.append(name)
        op_texts.append("query %s%s %s" % (name, "($flag%d: Boolean!)" % k if uses_flag else "", body))
    return {"sdl": SDL, "fragments": frag_texts, "operations": op_texts, "names": op_names, "features": sorted(feats | {"fraggraph"})}
