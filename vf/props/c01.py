"""C01 - result models accept and preserve every conformant response (see _clientworld.py for the worker)."""
from . import _clientworld as cw

PROP = "C01"
RULE = ("seeded valid schema x 3 generated operations (aliases, nesting, every wrapper, inline/named fragments on objects/interfaces/unions, @skip/@include) "
        "x config rotation {snake on/off, sync/async, plain/OpenTelemetry, tracer}; each method is called against the graphql-core reference server under "
        "10+ worlds (runtime-type rotation, random nulls, all-null, empty/single lists, one-null-at-a-time sweep); returned object walked in parallel with the "
        "response; distinct = distinct generator feature-set")


def run(tier, seed):
    n = 1500 if tier == "thorough" else 160
    return cw.run_shared(PROP, tier, seed, n, RULE, floors={"c01.responses": 200, "c01.abstract_positions": 50, "c01.typename_checks": 50, "c01.enum_leaves": 20, "c01.lists": 100}, case_hook=cw.with_mixins, dirty_sets=[[], ["dir.custom", "frag.uses_variables"], [], ["shape.iface_hierarchy"], ["schema.extend"], [], ["sel.field_merge"], ["frag.inline.on_interface"], [], ["names.leading_underscore"], ["frag.uses_variables", "shape.iface_hierarchy"], ["frag.inline.on_same_abstract"], ["names.pydantic_attr"], ["wrap.deep"]])


def replay(data):
    return cw.replay_shared(PROP, data)
