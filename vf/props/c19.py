"""C19 - the schema source does not change the generated client.

The same schema is supplied (a) as one SDL file, (b) as directory trees of .graphql/.graphqls/.gql files in random
partitions, (c) through introspection: `httpx.post` as bound in ariadne_codegen.schema is replaced by a recorder that
answers the introspection query with graphql-core on the harness-built schema and logs url / headers / verify.
The generated packages are compared; introspection failure classes must surface as IntrospectionError.
"""
from __future__ import annotations

import ast
import json
import os
import random
import sys
import warnings
from typing import Any, Dict, List, Optional, Tuple

import httpx

from .. import core
from ..core import CaseResult, Violation
from . import _clientworld as cw

PROP = "C19"


def class_segments(path) -> Dict[str, str]:
    src = path.read_text()
    tree = ast.parse(src)
    return {n.name: ast.get_source_segment(src, n) for n in tree.body if isinstance(n, ast.ClassDef)}


def method_signatures(path) -> Dict[str, str]:
    src = path.read_text()
    tree = ast.parse(src)
    out = {}
    for n in ast.walk(tree):
        if isinstance(n, (ast.FunctionDef, ast.AsyncFunctionDef)):
            out[n.name] = ast.unparse(n.args) + " -> " + (ast.unparse(n.returns) if n.returns else "")
            for c in ast.walk(n):
                if isinstance(c, ast.Constant) and isinstance(c.value, str) and ("query" in c.value or "mutation" in c.value or "subscription" in c.value) and "{" in c.value:
                    out[n.name + "::operation"] = " ".join(c.value.split())
    return out


def input_model_facts(pkg, cfg) -> Dict[str, Any]:
    import enum

    from pydantic import BaseModel
    from pydantic_core import PydanticUndefined

    mod = sys.modules["%s.%s" % (pkg.__name__, cfg.get("input_types_module_name", "input_types"))]
    facts = {}

    def norm(v):
        if isinstance(v, BaseModel):
            return {(fi.alias or n): norm(getattr(v, n)) for n, fi in type(v).model_fields.items() if getattr(v, n) is not None}
        if isinstance(v, enum.Enum):
            return v.value
        if isinstance(v, list):
            return [norm(x) for x in v]
        return v

    for name, cls in vars(mod).items():
        if isinstance(cls, type) and issubclass(cls, BaseModel) and cls.__module__ == mod.__name__:
            f = {}
            for n, fi in cls.model_fields.items():
                try:
                    default = "<required>" if fi.is_required() else norm(fi.get_default(call_default_factory=True))
                except BaseException as e:  # noqa: BLE001
                    default = "<default raises %s>" % type(e).__name__
                f[fi.alias or n] = {"python_name": n, "required": fi.is_required(), "default": default, "annotation": str(fi.annotation).replace(pkg.__name__, "PKG")}
            facts[name] = f
    return json.loads(json.dumps(facts, default=repr))


class PostRecorder:
    def __init__(self, schema_ref, mode: str = "ok"):
        self.schema = schema_ref
        self.mode = mode
        self.calls: List[Dict[str, Any]] = []

    def __call__(self, url, **kwargs):
        from graphql import graphql_sync

        self.calls.append({"url": url, "headers": kwargs.get("headers"), "verify": kwargs.get("verify"), "json": kwargs.get("json"), "other": sorted(set(kwargs) - {"headers", "verify", "json"})})
        req = httpx.Request("POST", url)
        if self.mode == "ok":
            q = kwargs["json"]["query"]
            res = graphql_sync(self.schema, q)
            if res.errors:
                raise RuntimeError("harness: introspection failed on the reference schema: %s" % res.errors[0])
            return httpx.Response(200, json={"data": res.data}, request=req)
        if self.mode.startswith("valid-body-status-"):
            # a well-formed introspection result under a non-2xx status must still be refused
            q = kwargs["json"]["query"]
            res = graphql_sync(self.schema, q)
            return httpx.Response(int(self.mode.rsplit("-", 1)[1]), json={"data": res.data}, request=req)
        if self.mode == "errors-with-usable-data":
            # the server reports errors AND ships a complete-looking result (a resolver failed somewhere and its value was nulled): the errors decide
            q = kwargs["json"]["query"]
            res = graphql_sync(self.schema, q)
            return httpx.Response(200, json={"data": res.data, "errors": [{"message": "Cannot return null for field __InputValue.defaultValue", "path": ["__schema", "types", 3]}]}, request=req)
        if self.mode == "status-500":
            return httpx.Response(500, text="boom", request=req)
        if self.mode == "status-404":
            return httpx.Response(404, json={"data": {}}, request=req)
        if self.mode == "status-302":
            return httpx.Response(302, json={"data": {}}, request=req)
        if self.mode == "non-json":
            return httpx.Response(200, text="<html>not json</html>", request=req)
        if self.mode == "non-json-latin1":
            return httpx.Response(200, content="<html>Erreur interne du café</html>".encode("latin-1"), headers={"content-type": "text/html; charset=iso-8859-1"}, request=req)
        if self.mode == "non-json-binary":
            return httpx.Response(200, content=b"\x1f\x8b\x08\x00\xff\xfe\x00binary", request=req)
        if self.mode == "empty-body":
            return httpx.Response(200, content=b"", request=req)
        if self.mode == "truncated-json":
            return httpx.Response(200, content=b'{"data": {"__schema": {"types": [', headers={"content-type": "application/json"}, request=req)
        if self.mode == "json-string":
            return httpx.Response(200, json="introspection is disabled", request=req)
        if self.mode == "json-number":
            return httpx.Response(200, json=7, request=req)
        if self.mode == "json-array":
            return httpx.Response(200, json=[1, 2], request=req)
        if self.mode == "json-null":
            return httpx.Response(200, json=None, request=req)
        if self.mode == "no-data-key":
            return httpx.Response(200, json={"foo": 1}, request=req)
        if self.mode == "errors":
            return httpx.Response(200, json={"data": None, "errors": [{"message": "introspection disabled"}]}, request=req)
        if self.mode == "errors-with-data":
            return httpx.Response(200, json={"data": {"__schema": None}, "errors": [{"message": "partial"}]}, request=req)
        if self.mode == "data-null":
            return httpx.Response(200, json={"data": None}, request=req)
        if self.mode == "data-list":
            return httpx.Response(200, json={"data": [1]}, request=req)
        if self.mode == "data-empty-object":
            return httpx.Response(200, json={"data": {}}, request=req)
        if self.mode == "data-schema-null":
            return httpx.Response(200, json={"data": {"__schema": None}}, request=req)
        if self.mode == "data-schema-garbage":
            return httpx.Response(200, json={"data": {"__schema": {"types": "nope"}}}, request=req)
        raise KeyError(self.mode)


FAILURE_MODES = ["valid-body-status-300", "valid-body-status-302", "valid-body-status-304", "valid-body-status-404", "valid-body-status-500", "status-500", "status-404", "status-302", "non-json", "non-json-latin1", "non-json-binary", "empty-body", "truncated-json", "json-string", "json-number", "json-array", "json-null", "no-data-key", "errors", "errors-with-data", "data-null", "data-list",
                 "data-empty-object", "data-schema-null", "data-schema-garbage", "errors-with-usable-data"]
# urls that are wrong as urls (they never reach the network); an empty url is a configuration error, unresolvable hosts are not url errors
BAD_URLS = ["not a url", "htp:/x", "://missing-scheme", "example.test/graphql", "http://[::1", "ftp://example.test/graphql"]


def generate(root, name: str, cfg: Dict[str, Any], sdl: Optional[str], queries: str, schema_files=None, recorder: Optional[PostRecorder] = None):
    from ..genpkg import run_cli, write_case

    import ariadne_codegen.schema as schema_mod

    c = dict(cfg)
    c["target_package_name"] = name
    if recorder is not None:
        c.pop("schema_path", None)
        c.setdefault("remote_schema_url", "http://introspect.test/graphql")
        conf = write_case(root, None, queries, c)
        saved = schema_mod.httpx.post
        schema_mod.httpx.post = recorder
        try:
            with warnings.catch_warnings():
                warnings.simplefilter("ignore")
                g = run_cli(root, "client", conf)
        finally:
            schema_mod.httpx.post = saved
        return g, conf
    conf = write_case(root, sdl, queries, c, schema_files=schema_files)
    with warnings.catch_warnings():
        warnings.simplefilter("ignore")
        g = run_cli(root, "client", conf)
    return g, conf


def partition(defs: List[str], rng: random.Random) -> Dict[str, str]:
    k = rng.randrange(1, min(5, len(defs)) + 1)
    names = []
    for i in range(k):
        sub = rng.choice(["", "sub/", "sub/deeper/", "zz/", "a_first/", ".shared/", "sub/.hidden/", "__generated__/"])  # (dot-named directories are directories too)
        names.append("%s%s%d%s" % (sub, rng.choice(["schema", "types", "part"]), i, rng.choice([".graphql", ".graphqls", ".gql"])))
    files: Dict[str, List[str]] = {n: [] for n in names}
    for d in defs:
        files[rng.choice(names)].append(d)
    out = {}
    for n, ds in files.items():
        if not ds:
            continue
        text = "\n\n".join(ds)
        style = rng.randrange(6)
        if style == 4:
            text = text.replace("\n", "\r\n") + "\r\n"  # written on Windows
        elif style == 5:
            text = "\ufeff" + text + "\n"  # saved with a byte-order mark (an ignored token of the language)
        elif style == 0:
            text += "\n"
        elif style == 1:
            text += "\n# trailing comment without newline"  # the next file must not be swallowed into this comment
        elif style == 2:
            text = "# leading comment\n" + text  # no newline at the end of the file at all
        else:
            text += "\n\n"
        out[n] = text
    out["notes/README.md"] = "not graphql - must be ignored\n"
    return out


def worker(case: Dict[str, Any]) -> CaseResult:
    from graphql import build_schema

    from ..gen.schema import generate_schema
    from ..genpkg import import_package

    stats: Dict[str, Any] = {}
    violations: List[Violation] = []

    def count(k, n=1):
        stats[k] = stats.get(k, 0) + n

    built = cw.build_inputs(case)
    if built is None:
        return CaseResult("inconclusive", note="generator could not produce a valid schema/document", stats={"gen_invalid": 1})
    sdl, frs, ops, names, feats, schema_ref = built
    spec, _, _ = generate_schema(case["seed"] * 100003 + case["idx"], set(case.get("dirty", [])), size=case.get("size", "m"))
    defs = spec.definitions()
    if case.get("_sdl"):
        defs = [d for d in case["_sdl"].split("\n\n") if d.strip()]
    feats = set(cw.case_features(case, feats))
    hidden_when_introspected: set = set()
    if case.get("deprecated_inputs") and not case.get("_sdl"):
        # optional input fields marked @deprecated: a conformant endpoint lists them only when asked with includeDeprecated
        import re as _re
        budget = [2]

        def mark(text: str) -> str:
            out_lines, inside, seen_in_block = [], False, 0
            for line in text.split("\n"):
                if line.startswith("input "):
                    inside, seen_in_block = True, 0
                elif line.startswith("}"):
                    inside = False
                m_ = _re.match(r"^  (\w+): ([^!=@]+?)( = .+)?$", line)
                if inside and _re.match(r"^  \w+:", line):
                    seen_in_block += 1
                # (never the first field of a type: an input type left without any visible field is a different story)
                if inside and m_ and budget[0] > 0 and "@" not in line and seen_in_block > 1:
                    line += ' @deprecated(reason: "old")'
                    budget[0] -= 1
                out_lines.append(line)
            return "\n".join(out_lines)

        new_defs = [mark(d) for d in defs]
        sdl2 = "\n\n".join(new_defs) + "\n"
        try:
            from graphql import GraphQLInputObjectType, validate_schema
            s2 = build_schema(sdl2)
            if not validate_schema(s2):
                sdl, defs, schema_ref = sdl2, new_defs, s2
                hidden_when_introspected = {(n, fn) for n, t in s2.type_map.items() if isinstance(t, GraphQLInputObjectType) for fn, f in t.fields.items() if f.deprecation_reason}
                if hidden_when_introspected:
                    feats.add("deprecated.input_field")
        except Exception:  # noqa: BLE001
            pass
    cfg_full = {k: v for k, v in case["cfg"].items() if not k.startswith("_")}
    queries = "\n\n".join(frs + ops)
    rng = random.Random(case["seed"] * 37 + case["idx"])
    replay_case = dict(case)
    replay_case["_sdl"] = sdl
    replay_case["_queries"] = queries
    fl = sorted(feats)
    os.environ["VF_C19_TOKEN"] = "secret-%d" % case["idx"]
    with core.Scratch() as root:
        g_a, c_a = generate(root, "pkg_file", cfg_full, sdl, queries)
        if not g_a.ok:
            return CaseResult("inconclusive", note="single-file generation failed (%s) - C04's concern" % g_a.exc_type, stats={"generation_failed": 1})
        variants: List[Tuple[str, Any, Any]] = []
        for k in range(3 if case.get("tier") == "thorough" else 2):
            files = partition(defs, rng)
            import shutil
            shutil.rmtree(root / "schema_dir", ignore_errors=True)
            # the same directory, named the ways a configuration names directories: plainly, with a leading ./, through a parent (`..` is a path component that begins
            # with a dot, and so does a hidden ancestor), absolutely
            (root / "sub").mkdir(exist_ok=True)
            (root / ".ws" / "proj").mkdir(parents=True, exist_ok=True)
            ref = ["schema_dir", "./schema_dir", "sub/../schema_dir", ".ws/proj/../../schema_dir", str(root / "schema_dir")][(case["idx"] + k) % 5]
            g, c = generate(root, "pkg_dir%d" % k, dict(cfg_full, schema_path=ref), None, queries, schema_files=files)
            variants.append(("directory-partition", g, c))
            count("partitions")
        rec = PostRecorder(schema_ref)
        verify = case["idx"] % 2 == 0
        cfg_i = dict(cfg_full)
        # `$NAME` as a whole value names an environment variable; a dollar sign anywhere else is a literal character
        literal_headers = {"X-Plain": "plain-value", "X-Dollar-Inside": "ab$$cd-2024", "X-Org": "org$team", "X-Trailing": "5$", "X-Braces": "a${b}c"}
        cfg_i["remote_schema_headers"] = dict({"Authorization": "$VF_C19_TOKEN", "X-Second": "$VF_C19_OTHER"}, **literal_headers)
        # (the variable's VALUE may itself begin with a dollar sign - crypt-style hashes, some API keys: it is a value, not another reference)
        os.environ["VF_C19_OTHER"] = ("$2y$10$hash-%d" if case["idx"] % 2 else "other-%d") % case["idx"]
        cfg_i["remote_schema_verify_ssl"] = verify
        g_i, c_i = generate(root, "pkg_introspection", cfg_i, None, queries, recorder=rec)
        variants.append(("introspection", g_i, c_i))
        count("introspections")
        # what was sent
        if len(rec.calls) != 1:
            violations.append(Violation(PROP, "one-introspection-request", "%d requests" % len(rec.calls), fl, replay_case, mech="c19:one-request"))
        else:
            call = rec.calls[0]
            want_headers = dict({"Authorization": "secret-%d" % case["idx"], "X-Second": os.environ["VF_C19_OTHER"]}, **literal_headers)
            if call["headers"] != want_headers:
                violations.append(Violation(PROP, "headers-sent", "headers %r expected %r" % (call["headers"], want_headers), fl, replay_case, mech="c19:headers-sent"))
            if call["verify"] is not verify:
                violations.append(Violation(PROP, "verify-flag-sent", "verify=%r expected %r" % (call["verify"], verify), fl, replay_case, mech="c19:verify-flag"))
            if call["url"] != "http://introspect.test/graphql":
                violations.append(Violation(PROP, "url-sent", repr(call["url"]), fl, replay_case, mech="c19:url"))
            count("request_checks")
        if case["idx"] % 3 == 0:
            # the other strategy reads the same remote source and must put the same request on the wire (url, resolved headers, TLS flag);
            # what it then writes is C16's matter
            import ariadne_codegen.schema as schema_mod2
            from ..genpkg import run_cli as _run, write_case as _write
            rec2 = PostRecorder(schema_ref)
            with core.Scratch() as r2:
                conf2 = _write(r2, None, None, {"remote_schema_url": "http://introspect.test/graphql", "remote_schema_headers": cfg_i["remote_schema_headers"],
                                               "remote_schema_verify_ssl": verify, "target_file_path": "remote_out.graphql"})
                conf2.pop("include_comments", None)
                saved2 = schema_mod2.httpx.post
                schema_mod2.httpx.post = rec2
                try:
                    with warnings.catch_warnings():
                        warnings.simplefilter("ignore")
                        g_r = _run(r2, "graphqlschema", conf2)
                finally:
                    schema_mod2.httpx.post = saved2
                count("graphqlschema_introspections")
                if not g_r.ok:
                    violations.append(Violation(PROP, "source-generates", "graphqlschema from the remote source failed: %s: %s" % (g_r.exc_type, str(g_r.exception)[:300]), fl, replay_case,
                                                mech="c19:graphqlschema-remote:generates"))
                elif len(rec2.calls) != 1:
                    violations.append(Violation(PROP, "one-introspection-request", "graphqlschema strategy: %d requests" % len(rec2.calls), fl, replay_case, mech="c19:one-request"))
                else:
                    call2 = rec2.calls[0]
                    want2 = dict({"Authorization": "secret-%d" % case["idx"], "X-Second": os.environ["VF_C19_OTHER"]}, **literal_headers)
                    if call2["headers"] != want2:
                        violations.append(Violation(PROP, "headers-sent", "graphqlschema strategy: headers %r expected %r" % (call2["headers"], want2), fl, replay_case, mech="c19:headers-sent"))
                    if call2["verify"] is not verify:
                        violations.append(Violation(PROP, "verify-flag-sent", "graphqlschema strategy: verify=%r expected %r" % (call2["verify"], verify), fl, replay_case, mech="c19:verify-flag"))
                    count("request_checks")
        base_dir = g_a.package_dir
        base_files = sorted(p.name for p in base_dir.glob("*.py"))
        base_pkg = import_package(root, "pkg_file")
        cw.import_all_modules(base_pkg, base_dir)
        base_inputs = input_model_facts(base_pkg, c_a)
        for label, g, c in variants:
            if not g.ok:
                mech_g = "c19:%s:generates" % label
                from graphql import GraphQLInputObjectType as _GIO
                emptied = [n for n, t in schema_ref.type_map.items() if isinstance(t, _GIO) and all(f.deprecation_reason for f in t.fields.values())]
                if label == "introspection" and hidden_when_introspected and (any(fn in str(g.exception) for _, fn in hidden_when_introspected) or (
                        g.exc_type == "InvalidInput" and any(("class %s(" % n) in str(g.exception) for n in emptied))):
                    # an operation literal names a field the introspected schema no longer has / an input type is left without any field (empty class body)
                    mech_g = "introspection-hides-deprecated-input-fields"
                violations.append(Violation(PROP, "source-generates", "%s: generation failed: %s: %s" % (label, g.exc_type, str(g.exception)[:300]), fl, replay_case,
                                            mech=mech_g))
                continue
            files = sorted(p.name for p in g.package_dir.glob("*.py"))
            if files != base_files:
                violations.append(Violation(PROP, "same-files", "%s: files %r vs %r" % (label, files, base_files), fl, replay_case, mech="c19:%s:same-files" % label))
                continue
            input_file = c.get("input_types_module_name", "input_types") + ".py"
            enums_file = c.get("enums_module_name", "enums") + ".py"
            client_file = c.get("client_file_name", "client") + ".py"
            for f in files:
                a_text = (base_dir / f).read_text().replace("pkg_file", "PKG")
                b_text = (g.package_dir / f).read_text().replace(g.package_dir.name, "PKG")
                count("files_compared")
                if f == input_file:
                    continue
                if a_text == b_text:
                    continue
                if f == "__init__.py":
                    continue  # import order of names follows schema order; the bound names are compared through the modules
                if f == enums_file:
                    if class_segments(base_dir / f) == class_segments(g.package_dir / f):
                        count("enums_equal_modulo_order")
                        continue
                if f == client_file:
                    if method_signatures(base_dir / f) == method_signatures(g.package_dir / f):
                        count("client_equal_modulo_import_order")
                        continue
                import difflib
                d = "".join(list(difflib.unified_diff(a_text.splitlines(True), b_text.splitlines(True), "file/" + f, label + "/" + f, n=0))[:20])
                violations.append(Violation(PROP, "identical-" + ("enums" if f == enums_file else "client" if f == client_file else "result-models"),
                                            "%s: %s differs\n%s" % (label, f, d[:1200]), fl, replay_case, mech="c19:%s:%s" % (label, "enums" if f == enums_file else "client" if f == client_file else "result-models")))
            try:
                pkg = import_package(root, g.package_dir.name)
                cw.import_all_modules(pkg, g.package_dir)
                facts = input_model_facts(pkg, c)
            except BaseException as e:  # noqa: BLE001
                violations.append(Violation(PROP, "source-loads", "%s: %s: %s" % (label, type(e).__name__, str(e)[:300]), fl, replay_case, mech="c19:%s:loads" % label))
                continue
            count("input_models_compared", len(facts))
            base_inputs_cmp = base_inputs
            if label == "introspection" and hidden_when_introspected:
                gone = sorted((cn, fn) for cn, fn in hidden_when_introspected if cn in base_inputs and fn in base_inputs[cn] and fn not in facts.get(cn, {}))
                if gone:
                    violations.append(Violation(PROP, "input-models-agree", "introspection: deprecated input fields missing from the input models: %r" % gone[:6], fl, replay_case,
                                                mech="introspection-hides-deprecated-input-fields"))
                    base_inputs_cmp = {cn: {fn: v for fn, v in fs.items() if (cn, fn) not in gone} for cn, fs in base_inputs.items()}
            if facts != base_inputs_cmp:
                diffs = []
                for cname in sorted(set(facts) | set(base_inputs_cmp)):
                    fa, fb = base_inputs_cmp.get(cname), facts.get(cname)
                    if fa != fb:
                        for fname in sorted(set(fa or {}) | set(fb or {})):
                            x, y = (fa or {}).get(fname), (fb or {}).get(fname)
                            if x != y:
                                diffs.append("%s.%s: file %r vs %s %r" % (cname, fname, x, label, y))
                only_defaults = all(("'default'" in d) for d in diffs) and all(
                    (base_inputs_cmp.get(c_, {}).get(f_, {}) or {}).get("annotation") == (facts.get(c_, {}).get(f_, {}) or {}).get("annotation")
                    for c_ in base_inputs_cmp for f_ in base_inputs_cmp[c_] if c_ in facts and f_ in facts[c_])
                mech = "c19:%s:input-models" % label
                if label == "introspection" and diffs and all(base_inputs_cmp[d.split(".")[0]][d.split(".")[1].split(":")[0]]["default"] not in ("<required>", None)
                                                              or True for d in diffs):
                    # attribute to the listed finding only when every difference is a default that the SDL path has and the introspection path lost
                    lost_only = True
                    for cname in base_inputs_cmp:
                        for fname, fa in base_inputs_cmp[cname].items():
                            fb = facts.get(cname, {}).get(fname)
                            if fb is None or fa == fb:
                                continue
                            same_but_default = {k: v for k, v in fa.items() if k not in ("default", "required")} == {k: v for k, v in fb.items() if k not in ("default", "required")}
                            if not (same_but_default and fa["default"] not in ("<required>", None) and fb["default"] in ("<required>", None)):
                                lost_only = False
                    if lost_only:
                        mech = "introspection-loses-input-defaults"
                violations.append(Violation(PROP, "input-models-agree", "%s: %s" % (label, "; ".join(diffs)[:900]), fl, replay_case, mech=mech))
    sample = None
    if case["idx"] < 2:
        sample = {"definitions": len(defs), "operations": [o[:200] for o in ops]}
    return CaseResult("violated" if violations else "held", [v.to_json() for v in violations], stats, {"features": fl}, sample=sample)


def failure_worker(case: Dict[str, Any]) -> CaseResult:
    """Every class of introspection failure surfaces as IntrospectionError and nothing is written."""
    from graphql import build_schema

    from . import c17

    violations: List[Violation] = []
    stats = {"failure_cases": 1}
    schema_ref = build_schema(c17.SCHEMA)
    mode = case["mode"]
    with core.Scratch() as root:
        cfg = {"remote_schema_url": case.get("url", "http://introspect.test/graphql")}
        rec = PostRecorder(schema_ref, mode if not case.get("url_case") else "ok")
        import ariadne_codegen.schema as schema_mod

        from ..genpkg import run_cli, write_case
        conf = write_case(root, None, c17.QUERIES, cfg)
        saved = schema_mod.httpx.post
        if not case.get("url_case"):
            schema_mod.httpx.post = rec
        try:
            with warnings.catch_warnings():
                warnings.simplefilter("ignore")
                g = run_cli(root, case.get("strategy", "client"), conf)
        finally:
            schema_mod.httpx.post = saved
        label = ("url:%r" % case.get("url")) if case.get("url_case") else mode
        feats = ["introspection.failure." + ("bad-url" if case.get("url_case") else mode)]
        if g.ok:
            violations.append(Violation(PROP, "failure-surfaces", "%s: generation succeeded" % label, feats, dict(case), mech="c19:failure-accepted:" + label))
        elif g.exc_type != "IntrospectionError":
            kind = "bad-url" if case.get("url_case") else mode
            violations.append(Violation(PROP, "failure-is-introspection-error", "%s: surfaced as %s: %s" % (label, g.exc_type or ("exit %d" % g.exit_code), str(g.exception)[:200]),
                                        feats, dict(case), mech="introspection-failure-not-typed:%s:%s" % (kind, g.exc_type)))
        else:
            stats["failures_typed"] = 1
        if (root / "graphql_client").exists():
            violations.append(Violation(PROP, "failure-writes-nothing", "%s: target package exists after the failure" % label, feats, dict(case), mech="c19:failure-writes:" + label))
    return CaseResult("violated" if violations else "held", [v.to_json() for v in violations], stats, {"features": feats})


def run(tier: str, seed: int) -> int:
    r = core.Run(PROP, tier, seed)
    r.rule = ("seeded schemas x operation sets generated from (a) one SDL file, (b) 2-3 random partitions of the definitions into files with the three extensions in nested "
              "directories (plus a non-GraphQL file), (c) an in-process introspection endpoint behind the real httpx.post call site with $ENV headers and both verify values; "
              "packages compared file by file (result models textually, enums/client modulo class/import order, input models semantically); 14 introspection failure "
              "classes + 6 malformed URLs; distinct = distinct feature-set / failure class")
    r.assumptions = ["graphql-core introspection of the harness-built schema is what a conformant remote endpoint returns"]
    r.floors = {"partitions": 100, "introspections": 50, "files_compared": 1000, "input_models_compared": 100, "failure_cases": 15}
    n = 500 if tier == "thorough" else 60
    cases = [cw.make_case(seed, i, tier=tier, dirty=(["schema.extend"] if i % 3 == 1 else ["wrap.deep"] if i % 3 == 2 else [])) for i in range(n)]
    for i, c in enumerate(cases):
        if i % 4 == 3:
            c["deprecated_inputs"] = True

    def on_result(case, res):
        r.add(case, res)
        if res.status != "inconclusive":
            r.mark_distinct(tuple(sorted(res.sets.get("features", []))))

    core.run_forked(cases, worker, timeout_s=240, on_result=on_result)
    fcases = [{"mode": m, "strategy": s} for m in FAILURE_MODES for s in ("client", "graphqlschema")]
    fcases += [{"mode": "ok", "url_case": True, "url": u, "strategy": "client"} for u in BAD_URLS]
    for c, res in zip(fcases, core.run_forked(fcases, failure_worker, timeout_s=120)):
        r.add(c, res)
        r.mark_distinct(("failure", c["mode"], c.get("url"), c["strategy"]))
    return r.finish()


def replay(data) -> int:
    case = data["case"]
    if "mode" in case:
        res = core.run_forked([case], failure_worker)[0]
    else:
        case = dict(case)
        res = core.run_forked([case], worker)[0]
    print("status:", res.status, res.note)
    for v in res.violations:
        print("-", v["clause"], "[", v["mech"], "] ::", v["detail"][:1500])
    return 1 if res.violations else 0
