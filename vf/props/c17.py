"""C17 - invalid input is rejected up front, with a typed error and no side effects.

Fault enumeration: every documented configuration constraint, syntax errors, one invalid schema per validation
rule branch (each confirmed invalid by graphql-core in the harness first), one invalid operation per specified
validation rule (confirmed likewise), each x pre-existing target states.  Monitors: sys.addaudithook file-system
events under the target, before/after tree snapshot, exception type/message of the real CLI run.
"""
from __future__ import annotations

import copy
import hashlib
import json
import os
import sys
import warnings
from pathlib import Path
from typing import Any, Callable, Dict, List, Optional, Tuple

from .. import core
from ..core import CaseResult, Violation

PROP = "C17"

SCHEMA = '''
type Query { user(id: ID!): User users(first: Int = 10, filter: Filter): [User!]! node: Node search: [Result!]! }
type Mutation { touch(id: ID!): Boolean }
type Subscription { ticks: Int other: Int }
interface Node { id: ID! }
type User implements Node { id: ID! name: String friends: [User!] color: Color }
type Org implements Node { id: ID! title: String }
union Result = User | Org
enum Color { RED GREEN }
input Filter { name: String color: Color req: Int! }
scalar When
'''

QUERIES = '''
query GetUser($id: ID!) { user(id: $id) { id name color friends { id } } }
query Search { search { __typename ... on User { name } ... on Org { title } } }
mutation Touch($id: ID!) { touch(id: $id) }
'''

# operations that walk through the invalid part of an invalid schema (the default operation only asks for __typename)
INVALID_SCHEMA_OPS = {
    "interface-field-missing+op": "query Q { a { id name ... on T { email } } }",
    "interface-field-type-mismatch+op": "query Q { a { a ... on T { a } } }",
    "duplicate-enum-value+op": "query Q($e: E) { a(e: $e) }",
    "empty-object+op": "query Q { a { __typename } }",
}

BASE_CLIENT = "import httpx\n\n\nclass MyBaseClient:\n    def __init__(self, url='', http_client=None):\n        self.url = url\n"

# ---- invalid operations: (label = targeted rule, queries text)
INVALID_OPS = [
    # beyond example sizes: so many problems that the validator stops counting (its 101st entry says so and names no place in the document)
    ("FieldsOnCorrectType-130-operations", " ".join("query Op%d { node { id renamedAway%d } }" % (i, i) for i in range(130))),
    ("ExecutableDefinitions", "query A { node { id } } type X { a: Int }"),
    ("UniqueOperationNames", "query A { node { id } } query A { node { id } }"),
    ("LoneAnonymousOperation", "{ node { id } } query B { node { id } }"),
    ("SingleFieldSubscriptions", "subscription S { ticks other }"),
    ("KnownTypeNames-variable", "query A($x: Missing) { node { id } }"),
    ("KnownTypeNames-fragment", "query A { node { ...F } } fragment F on Missing { id }"),
    ("FragmentsOnCompositeTypes", "query A { node { ...F } } fragment F on Color { id }"),
    ("VariablesAreInputTypes", "query A($x: User) { node { id } }"),
    ("ScalarLeafs-missing-selection", "query A { node }"),
    ("ScalarLeafs-selection-on-scalar", "query A { user(id: 1) { name { x } } }"),
    ("FieldsOnCorrectType", "query A { nope }"),
    ("UniqueFragmentNames", "query A { node { ...F } } fragment F on Node { id } fragment F on Node { id }"),
    ("KnownFragmentNames", "query A { node { ...Missing } }"),
    ("PossibleFragmentSpreads", "query A { user(id: 1) { ... on Org { title } } }"),
    ("NoFragmentCycles", "query A { node { ...F } } fragment F on Node { ...G } fragment G on Node { ...F }"),
    ("UniqueVariableNames", "query A($x: ID!, $x: ID!) { user(id: $x) { id } }"),
    ("NoUndefinedVariables", "query A { user(id: $nope) { id } }"),
    ("NoUnusedVariables", "query A($x: ID!) { node { id } }"),
    ("KnownDirectives", "query A { node @nope { id } }"),
    ("KnownDirectives-location", "query A @skip(if: true) { node { id } }"),
    ("UniqueDirectivesPerLocation", "query A { node @skip(if: true) @skip(if: false) { id } }"),
    ("KnownArgumentNames", "query A { user(idd: 1) { id } }"),
    ("KnownArgumentNames-directive", "query A { node @skip(iff: true) { id } }"),
    ("UniqueArgumentNames", "query A { user(id: 1, id: 2) { id } }"),
    ("ValuesOfCorrectType", "query A { users(first: \"x\") { id } }"),
    ("ValuesOfCorrectType-enum", "query A { users(filter: {req: 1, color: BLUE}) { id } }"),
    ("ValuesOfCorrectType-required-input-field", "query A { users(filter: {name: \"x\"}) { id } }"),
    ("ProvidedRequiredArguments", "query A { user { id } }"),
    ("ProvidedRequiredArguments-directive", "query A { node @skip { id } }"),
    ("VariablesInAllowedPosition", "query A($x: Int) { user(id: $x) { id } }"),
    ("OverlappingFieldsCanBeMerged", "query A { user(id: 1) { name: id name } }"),
    ("UniqueInputFieldNames", "query A { users(filter: {req: 1, req: 2}) { id } }"),
    ("mixin-not-repeat-invalid-arg", "query A { node @mixin(from: 1, nope: 2) { id } }"),
]

# ---- invalid schemas: (label, SDL)
INVALID_SCHEMAS = [
    ("no-query-root", "type Foo { a: Int }"),
    ("root-not-object", "schema { query: E } enum E { A }"),
    ("empty-object", "type Query { a: Int } type Empty"),
    ("empty-interface", "type Query { a: Int } interface I"),
    ("empty-input", "type Query { a: Int } input I"),
    ("empty-enum", "type Query { a: Int } enum E"),
    ("empty-union", "type Query { a: Int } union U"),
    ("union-non-object-member", "type Query { a: Int } union U = Int"),
    ("union-duplicate-member", "type Query { a: Int } type T { b: Int } union U = T | T"),
    ("interface-field-missing", "type Query { a: T } interface I { a: Int } type T implements I { b: Int }"),
    ("interface-field-type-mismatch", "type Query { a: T } interface I { a: Int } type T implements I { a: String }"),
    ("interface-arg-missing", "type Query { a: T } interface I { a(x: Int): Int } type T implements I { a: Int }"),
    ("implements-non-interface", "type Query { a: Int } type T implements Query { a: Int }"),
    ("implements-self", "type Query { a: I } interface I implements I { a: Int }"),
    ("transitive-interface-missing", "type Query { a: T } interface A { a: Int } interface B implements A { a: Int } type T implements B { a: Int }"),
    ("duplicate-type", "type Query { a: Int } type A { a: Int } type A { b: Int }"),
    ("duplicate-field", "type Query { a: Int a: String }"),
    ("duplicate-argument", "type Query { a(x: Int, x: Int): Int }"),
    ("duplicate-enum-value", "type Query { a: E } enum E { A A }"),
    ("duplicate-directive", "type Query { a: Int } directive @d on FIELD directive @d on FIELD"),
    ("unknown-type", "type Query { a: Missing }"),
    ("input-field-output-type", "type Query { a(x: I): Int } input I { a: Query }"),
    ("output-field-input-type", "type Query { a: I } input I { a: Int }"),
    ("argument-output-type", "type Query { a(x: Query): Int }"),
    ("reserved-name", "type Query { a: Int } type __Bad { a: Int }"),
    ("reserved-field-name", "type Query { __a: Int }"),
    ("enum-value-true", "type Query { a: E } enum E { true }"),
    ("input-nonnull-cycle", "type Query { a(x: A): Int } input A { b: B! } input B { a: A! }"),
    ("required-arg-deprecated", "type Query { a(x: Int! @deprecated): Int }"),
    ("required-input-field-deprecated", "type Query { a(x: I): Int } input I { a: Int! @deprecated }"),
    ("directive-unknown-arg-type", "type Query { a: Int } directive @d(x: Missing) on FIELD"),
    ("interface-field-missing+op", "type Query { a: I } interface I { id: ID name: String } type T implements I { id: ID email: String }"),
    ("interface-field-type-mismatch+op", "type Query { a: I } interface I { a: Int } type T implements I { a: String }"),
    ("duplicate-enum-value+op", "type Query { a(e: E): E } enum E { A A }"),
    ("empty-object+op", "type Query { a: Empty } type Empty"),
    ("same-root-for-query-and-mutation-ok-but-missing-type", "schema { query: Query mutation: Missing } type Query { a: Int }"),
]


def tree_snapshot(root: Path) -> Dict[str, str]:
    out = {}
    if not root.exists():
        return {"<absent>": ""}
    if root.is_file():
        return {root.name: hashlib.sha256(root.read_bytes()).hexdigest()}
    for p in sorted(root.rglob("*")):
        if "__pycache__" in p.parts:
            continue
        rel = str(p.relative_to(root))
        out[rel] = "<dir>" if p.is_dir() else hashlib.sha256(p.read_bytes()).hexdigest()
    out["<dir-exists>"] = ""
    return out


class FsAudit:
    """Audit-hook monitor: create/write/mkdir/rename/remove events whose path lies under `target`."""

    def __init__(self):
        self.target: Optional[str] = None
        self.events: List[Tuple[str, str]] = []
        self.installed = False

    def install(self):
        if self.installed:
            return
        self.installed = True

        def hook(event, args):
            t = self.target
            if t is None:
                return
            try:
                if event == "open":
                    path, mode, flags = args[0], args[1], args[2]
                    if not isinstance(path, (str, bytes, os.PathLike)):
                        return
                    writing = (isinstance(mode, str) and any(c in mode for c in "wax+")) or (isinstance(flags, int) and flags & (os.O_WRONLY | os.O_RDWR | os.O_CREAT | os.O_TRUNC | os.O_APPEND))
                    if writing and self._under(path):
                        self.events.append(("open-for-write", os.fspath(path)))
                elif event in ("os.mkdir", "os.rmdir", "os.remove", "os.truncate", "os.chmod", "os.utime"):
                    if self._under(args[0]):
                        self.events.append((event, os.fspath(args[0])))
                elif event in ("os.rename", "os.link", "os.symlink", "shutil.copyfile", "shutil.move", "shutil.copytree"):
                    for a in args[:2]:
                        if isinstance(a, (str, bytes, os.PathLike)) and self._under(a):
                            self.events.append((event, os.fspath(a)))
                elif event == "shutil.rmtree":
                    if self._under(args[0]):
                        self.events.append((event, os.fspath(args[0])))
            except Exception:  # noqa: BLE001
                pass

        sys.addaudithook(hook)

    def _under(self, path) -> bool:
        try:
            p = os.path.abspath(os.fspath(path))
            if isinstance(p, bytes):
                p = p.decode()
        except Exception:  # noqa: BLE001
            return False
        t = self.target
        return p == t or p.startswith(t + os.sep)


AUDIT = FsAudit()


def base_config() -> Dict[str, Any]:
    return {"schema_path": "schema.graphql", "queries_path": "queries.graphql", "include_comments": "none"}


# ---- fault catalogue ---------------------------------------------------------------------------
# each fault: (label, class, strategy, mutate(cfg, root) -> token the message must name (or None))


def config_faults() -> List[Tuple[str, str, Callable[[Dict[str, Any], Path], Optional[str]]]]:
    F: List[Tuple[str, str, Callable[[Dict[str, Any], Path], Optional[str]]]] = []

    def add(label, strategy, fn):
        F.append((label, strategy, fn))

    def no_source(c, r):
        c.pop("schema_path")
        return "schema"
    add("no-schema-source", "client", no_source)
    add("no-schema-source", "graphqlschema", no_source)

    def missing_schema(c, r):
        c["schema_path"] = "nope/schema.graphql"
        return "nope/schema.graphql"
    add("schema-path-missing", "client", missing_schema)
    add("schema-path-missing", "graphqlschema", missing_schema)

    def missing_queries(c, r):
        c["queries_path"] = "nope_queries.graphql"
        return "nope_queries.graphql"
    add("queries-path-missing", "client", missing_queries)

    def no_queries(c, r):
        c.pop("queries_path")
        return "queries_path"
    add("queries-path-absent", "client", no_queries)

    for key in ("target_package_name", "client_name", "client_file_name", "enums_module_name", "input_types_module_name", "fragments_module_name", "base_client_name"):
        for bad in ("not-an-identifier", "1starts_with_digit", "has space"):
            def fn(c, r, key=key, bad=bad):
                c[key] = bad
                if key == "base_client_name":
                    (r / "my_base.py").write_text(BASE_CLIENT)
                    c["base_client_file_path"] = "my_base.py"
                return bad
            add("name-not-identifier:%s:%s" % (key, bad.split("-")[0].split(" ")[0]), "client", fn)
        def kw(c, r, key=key):
            c[key] = "class"
            if key == "base_client_name":
                (r / "my_base.py").write_text(BASE_CLIENT.replace("MyBaseClient", "class_"))
                c["base_client_file_path"] = "my_base.py"
            return "class"
        add("name-is-keyword:%s" % key, "client", kw)
    for key in ("schema_variable_name", "type_map_variable_name"):
        def fn2(c, r, key=key):
            c[key] = "not-an-identifier"
            return "not-an-identifier"
        add("name-not-identifier:%s" % key, "graphqlschema", fn2)

    def bad_comments(c, r):
        c["include_comments"] = "sometimes"
        return "sometimes"
    add("unknown-comment-mode", "client", bad_comments)

    def scalar_no_type(c, r):
        c["scalars"] = {"When": {"parse": "x.parse"}}
        return "type"
    add("scalar-without-type", "client", scalar_no_type)

    def header_var(c, r):
        c.pop("schema_path")
        c["remote_schema_url"] = "http://127.0.0.1:9/graphql"
        c["remote_schema_headers"] = {"Authorization": "$VF_SURELY_MISSING_ENV_VAR"}
        return "VF_SURELY_MISSING_ENV_VAR"
    add("header-variable-unresolvable", "client", header_var)
    add("header-variable-unresolvable", "graphqlschema", header_var)

    def base_client_class_missing(c, r):
        (r / "my_base.py").write_text(BASE_CLIENT)
        c["base_client_file_path"] = "my_base.py"
        c["base_client_name"] = "OtherClient"
        return "OtherClient"
    add("base-client-class-missing", "client", base_client_class_missing)

    def base_client_file_missing(c, r):
        c["base_client_file_path"] = "nope_base.py"
        c["base_client_name"] = "MyBaseClient"
        return "nope_base.py"
    add("base-client-file-missing", "client", base_client_file_missing)

    def base_client_is_dir(c, r):
        (r / "adir").mkdir()
        c["base_client_file_path"] = "adir"
        c["base_client_name"] = "MyBaseClient"
        return "adir"
    add("base-client-path-is-directory", "client", base_client_is_dir)

    for bad in ("out.txt", "out", "out.json"):
        def fn3(c, r, bad=bad):
            c["target_file_path"] = bad
            return bad
        add("bad-target-file-type:%s" % bad, "graphqlschema", fn3)

    def pkg_path_not_dir(c, r):
        c["target_package_path"] = "no_such_dir"
        return "no_such_dir"
    add("target-package-path-not-directory", "client", pkg_path_not_dir)

    def include_is_dir(c, r):
        (r / "include_dir").mkdir()
        c["files_to_include"] = ["include_dir"]
        return "include_dir"
    add("files-to-include-is-directory", "client", include_is_dir)

    def base_client_only_path(c, r):
        (r / "my_base.py").write_text("class MyBaseClient:\n    pass\n")
        c["base_client_file_path"] = "my_base.py"
        return None  # ("Provided name  cannot be used as python identifier." names the problem as far as the statement asks)
    add("base-client-path-without-name", "client", base_client_only_path)

    def base_client_only_name(c, r):
        c["base_client_name"] = "MyBaseClient"
        return None
    add("base-client-name-without-path", "client", base_client_only_name)

    def include_missing(c, r):
        c["files_to_include"] = ["nope_include.py"]
        return "nope_include.py"
    add("files-to-include-missing", "client", include_missing)
    return F


def worker(case: Dict[str, Any]) -> CaseResult:
    from graphql import NoUnusedFragmentsRule, build_schema, parse, specified_rules, validate, validate_schema

    from ..genpkg import run_cli, write_case

    AUDIT.install()
    stats: Dict[str, Any] = {}
    violations: List[Violation] = []
    kind = case["kind"]
    label = case["label"]
    strategy = case.get("strategy", "client")
    state = case.get("state", "absent")
    feats = ["fault." + kind, "state." + state, "strategy." + strategy]

    def count(k, n=1):
        stats[k] = stats.get(k, 0) + n

    with core.Scratch() as root:
        cfg = base_config()
        sdl, queries = SCHEMA, QUERIES
        token = None
        expected_classes: Tuple[str, ...] = ("CodeGenException",)
        if strategy == "graphqlschema":
            cfg = {"schema_path": "schema.graphql", "target_file_path": "schema_out.py"}
        # previous valid generation (state) happens before the fault is injected
        target_rel = "graphql_client" if strategy == "client" else cfg["target_file_path"]
        write_case(root, sdl, queries if strategy == "client" else None, dict(cfg))
        if state == "previous":
            with warnings.catch_warnings():
                warnings.simplefilter("ignore")
                g0 = run_cli(root, strategy, cfg)
            if not g0.ok:
                return CaseResult("inconclusive", note="baseline valid generation failed: %s %s" % (g0.exc_type, g0.exception))
        elif state == "empty" and strategy == "client":
            (root / target_rel).mkdir()
        elif state == "unrelated":
            if strategy == "client":
                (root / target_rel).mkdir()
                (root / target_rel / "user_notes.txt").write_text("keep me")
                (root / target_rel / "client.py").write_text("# hand written, must survive a failed run\n")
            else:
                (root / target_rel).write_text("# user content\n")
        # inject the fault
        if kind == "config":
            fn = {(l, s): f for l, s, f in config_faults()}[(label, strategy)]
            token = fn(cfg, root)
            expected_classes = ("InvalidConfiguration", "MissingConfiguration")
        elif kind == "syntax":
            where = case["where"]
            if where == "schema":
                sdl = SCHEMA + "\ntype Broken { a: \n"
                token = "schema.graphql"
            elif where == "queries":
                queries = QUERIES + "\nquery Broken { a( }\n"
                token = "queries.graphql"
            elif where == "schema-dir":
                (root / "sdir").mkdir()
                (root / "sdir" / "a.graphql").write_text(SCHEMA)
                (root / "sdir" / "b_broken.graphqls").write_text("type Broken { a: ")
                cfg["schema_path"] = "sdir"
                token = "b_broken.graphqls"
            elif where == "queries-dir":
                (root / "qdir" / "sub").mkdir(parents=True)
                (root / "qdir" / "ok.graphql").write_text(QUERIES)
                (root / "qdir" / "sub" / "broken.gql").write_text("query { a( ")
                cfg["queries_path"] = "qdir"
                token = "broken.gql"
            elif where == "schema-dir-dangling-description":
                # invalid on its own (a description that describes nothing), valid only if glued to the file sorted after it
                (root / "sdir").mkdir()
                (root / "sdir" / "a_main.graphql").write_text(SCHEMA + '\n"""describes the next file\'s type"""\n')
                (root / "sdir" / "b_extra.graphql").write_text("type Extra { x: Int }\n")
                cfg["schema_path"] = "sdir"
                token = "a_main.graphql"
            elif where == "schema-dir-truncated":
                (root / "sdir").mkdir()
                (root / "sdir" / "a_main.graphql").write_text(SCHEMA + "\ntype Extra { x: Int\n")
                (root / "sdir" / "b_rest.graphql").write_text("y: Int }\n")
                cfg["schema_path"] = "sdir"
                token = "a_main.graphql"
            elif where == "schema-dir-empty-file":
                (root / "sdir").mkdir()
                (root / "sdir" / "a_main.graphql").write_text(SCHEMA)
                (root / "sdir" / "b_empty.graphql").write_text("# nothing here yet\n")
                cfg["schema_path"] = "sdir"
                token = "b_empty.graphql"
            elif where == "queries-dir-split-fragment":
                (root / "qdir").mkdir(parents=True)
                (root / "qdir" / "a_ops.graphql").write_text(QUERIES + "\nquery WithF { node { ...F } }\nfragment F on Node")
                (root / "qdir" / "b_body.graphql").write_text("{ id }\n")
                cfg["queries_path"] = "qdir"
                token = "a_ops.graphql"
            elif where == "queries-dir-empty-file":
                (root / "qdir").mkdir(parents=True)
                (root / "qdir" / "a_ops.graphql").write_text(QUERIES)
                (root / "qdir" / "z_empty.graphql").write_text("")
                cfg["queries_path"] = "qdir"
                token = "z_empty.graphql"
            expected_classes = ("InvalidGraphqlSyntax",)
        elif kind == "schema":
            sdl = dict(INVALID_SCHEMAS)[label]
            # confirm with the reference implementation that this schema IS invalid
            try:
                s = build_schema(sdl)
                errs = validate_schema(s)
            except Exception as e:  # noqa: BLE001
                errs = [e]
            if not errs:
                return CaseResult("inconclusive", note="harness: schema %s is not invalid for graphql-core" % label, stats={"fault_not_confirmed": 1})
            if strategy == "client":
                queries = INVALID_SCHEMA_OPS.get(label, "query Q { __typename }")
        elif kind == "collision":
            queries = QUERIES + "\nquery %s { node { id } }\n" % label
            expected_classes = ("ParsingError",)
            token = None
        elif kind == "operation":
            queries = dict(INVALID_OPS)[label]
            ref = build_schema(SCHEMA + "\ndirective @mixin(from: String, import: String) repeatable on FIELD | FRAGMENT_DEFINITION\n")
            rules = [r_ for r_ in specified_rules if r_ is not NoUnusedFragmentsRule]
            try:
                errs = validate(ref, parse(queries), rules)
            except Exception as e:  # noqa: BLE001
                errs = [e]
            if not errs:
                return CaseResult("inconclusive", note="harness: operation %s is not invalid for graphql-core" % label, stats={"fault_not_confirmed": 1})
            expected_classes = ("InvalidOperationForSchema", "ParsingError", "NotSupported")
        target_rel = (cfg.get("target_package_name", "graphql_client") if strategy == "client" else cfg.get("target_file_path", "schema_out.py"))
        if strategy == "client" and "target_package_path" in cfg:
            target = (root / cfg["target_package_path"] / target_rel)
        else:
            target = root / target_rel
        query_files = None
        if case.get("layout") == "dir" and strategy == "client":
            # the same invalid document, one definition per file of a queries directory (nested folders, every documented extension): what is invalid as one
            # document is invalid as a directory - the rules about names hold across files
            from graphql import print_ast
            defs_ = [print_ast(d_) for d_ in parse(queries).definitions]
            exts = [".graphql", ".gql", ".graphqls"]
            query_files = {("%s%02d_def%s" % ("nested/deeper/" if k_ % 3 == 2 else ("nested/" if k_ % 3 == 1 else ""), k_, exts[k_ % 3])): t_ + "\n" for k_, t_ in enumerate(defs_)}
            cfg["queries_path"] = "queries_dir"
            feats = list(feats) + ["layout.queries_directory"]
        write_case(root, sdl, (queries if strategy == "client" else None) if not query_files else None, dict(cfg), query_files=query_files)
        (root / "pyproject.toml").write_text(__import__("toml").dumps({"tool": {"ariadne-codegen": cfg}}))
        before = tree_snapshot(target)
        AUDIT.events.clear()
        AUDIT.target = str(target.resolve()) if target.exists() else os.path.abspath(str(target))
        with warnings.catch_warnings():
            warnings.simplefilter("ignore")
            g = run_cli(root, strategy, cfg)
        AUDIT.target = None
        events = list(AUDIT.events)
        after = tree_snapshot(target)
        count("faults_run")
        replay_case = dict(case)
        mech_base = "%s:%s" % (kind, label)
        if g.ok:
            violations.append(Violation(PROP, "rejected", "%s/%s (%s, target %s): the command succeeded" % (kind, label, strategy, state), feats, replay_case, mech="accepted:" + mech_base))
        else:
            from ariadne_codegen import exceptions as ex

            exc = g.exception
            if exc is None:
                violations.append(Violation(PROP, "typed-error", "%s/%s: exit code %d without exception: %s" % (kind, label, g.exit_code, g.stdout[-200:]), feats, replay_case,
                                            mech="untyped:" + mech_base))
            elif not isinstance(exc, ex.CodeGenException):
                violations.append(Violation(PROP, "typed-error", "%s/%s: escaped as %s: %s" % (kind, label, type(exc).__name__, str(exc)[:200]), feats, replay_case,
                                            mech="untyped:%s:%s" % (mech_base, type(exc).__name__)))
            else:
                count("typed_errors")
                if "CodeGenException" not in expected_classes and type(exc).__name__ not in expected_classes:
                    violations.append(Violation(PROP, "corresponding-exception", "%s/%s: raised %s, expected one of %r" % (kind, label, type(exc).__name__, expected_classes), feats, replay_case,
                                                mech="wrong-class:" + mech_base))
                msg = str(exc)
                if not msg.strip():
                    violations.append(Violation(PROP, "names-the-problem", "%s/%s: empty message" % (kind, label), feats, replay_case, mech="empty-message:" + mech_base))
                elif token and token not in msg:
                    violations.append(Violation(PROP, "names-the-problem", "%s/%s: message %r does not name %r" % (kind, label, msg[:200], token), feats, replay_case,
                                                mech="unnamed:" + mech_base))
                else:
                    count("messages_name_problem")
        if events or before != after:
            created = sorted(set(after) - set(before))[:6]
            changed = sorted(k for k in set(after) & set(before) if after[k] != before[k])[:6]
            violations.append(Violation(PROP, "no-side-effects", "%s/%s (%s, target %s): file-system events under the target %r; created %r changed %r removed %r" % (
                kind, label, strategy, state, events[:6], created, changed, sorted(set(before) - set(after))[:6]), feats, replay_case, mech="side-effects:" + mech_base))
        else:
            count("no_side_effect_checks")
    return CaseResult("violated" if violations else "held", [v.to_json() for v in violations], stats, {"features": feats, "faults": ["%s/%s" % (kind, label)]},
                      sample={"kind": kind, "label": label, "strategy": strategy, "target_state": state} if case.get("idx", 9) < 3 else None)


def valid_worker(case: Dict[str, Any]) -> CaseResult:
    """Every configuration meeting the constraints is accepted; unknown keys ignored; settings do not mutate their input."""
    from ..genpkg import run_cli, write_case

    violations: List[Violation] = []
    stats: Dict[str, Any] = {}
    label = case["label"]
    with core.Scratch() as root:
        cfg = base_config()
        strategy = case.get("strategy", "client")
        section_style = "tool"
        if strategy == "graphqlschema":
            cfg = {"schema_path": "schema.graphql", "target_file_path": "out.graphql"}
        if label == "unknown-keys":
            cfg.update({"totally_unknown": 1, "another": {"nested": True}, "client_nam": "typo"})
        elif label == "unknown-keys-nested":
            # unknown keys inside the known sub-tables
            cfg["scalars"] = {"When": {"type": "datetime.datetime", "description": "ISO timestamp", "graphql_type": "When", "x-team": "core"}}
            cfg["remote_schema_headers"] = {"X-Plain": "value"}
        elif label == "headers-dollar-inside":
            # `$` only means "environment variable" at the start of a value: these are literals
            cfg["remote_schema_headers"] = {"X-Key": "ab$$cd-2024", "X-Org": "org$team", "X-Price": "5$"}
        elif label == "deprecated-section":
            section_style = "plain"
        elif label == "bool-comments":
            cfg["include_comments"] = True
        elif label == "headers-literal":
            cfg["remote_schema_headers"] = {"X-Plain": "value"}
        elif label == "headers-env":
            os.environ["VF_C17_TOKEN"] = "resolved-secret"
            cfg["remote_schema_headers"] = {"Authorization": "$VF_C17_TOKEN", "X-Plain": "value"}
            cfg["scalars"] = {"When": {"type": "str"}}
            cfg["files_to_include"] = []
        elif label == "custom-base-client":
            (root / "my_base.py").write_text(open(core.REPO / "ariadne_codegen/client_generators/dependencies/async_base_client.py").read().replace("class AsyncBaseClient", "class MyBaseClient"))
            cfg.update({"base_client_file_path": "my_base.py", "base_client_name": "MyBaseClient"})
        elif label == "all-names-custom":
            cfg.update({"target_package_name": "my_pkg", "client_name": "MyClient", "client_file_name": "my_client", "enums_module_name": "my_enums",
                        "input_types_module_name": "my_inputs", "fragments_module_name": "my_fragments"})
        elif label.startswith("names-set-"):
            from ._clientworld import NAME_SETS
            cfg.update(NAME_SETS[int(label.rsplit("-", 1)[1])])
            if "target_package_path" in cfg:
                (root / cfg["target_package_path"]).mkdir(parents=True, exist_ok=True)
        elif label.startswith("package-named-"):
            # a package and the modules inside it do not share a namespace
            cfg["target_package_name"] = label[len("package-named-"):]
        elif label == "custom-base-client-in-block":
            from ._clientworld import CUSTOM_BASE_CLIENT
            (root / "lib").mkdir()
            (root / "lib" / "transport.py").write_text(CUSTOM_BASE_CLIENT)
            cfg.update({"base_client_file_path": "lib/transport.py", "base_client_name": "TransportBaseClient", "async_client": False})
        elif label == "package-path-nested":
            (root / "src" / "generated").mkdir(parents=True)
            cfg.update({"target_package_path": "src/generated", "target_package_name": "api_v2"})
        elif label == "unused-fragment":
            pass
        elif label == "scalar-full":
            cfg["scalars"] = {"When": {"type": "datetime.datetime"}}
        elif label == "target-upper-ext":
            cfg["target_file_path"] = "OUT.GRAPHQL"
        elif label.startswith("target-mixed-ext:"):
            cfg["target_file_path"] = label.split(":", 1)[1]
        queries = QUERIES + ("\nfragment Unused on User { id }\n" if label == "unused-fragment" else "")
        write_case(root, SCHEMA, queries if strategy == "client" else None, cfg, section_style=section_style)
        import toml
        if label == "deprecated-section":
            # the legacy top-level section living next to other tools' tables, as in a real pyproject.toml
            doc_ = toml.load(root / "pyproject.toml")
            doc_["tool"] = {"black": {"line-length": 88}, "pytest": {"ini_options": {"testpaths": ["tests"]}}}
            (root / "pyproject.toml").write_text(toml.dumps(doc_))
        config_dict = toml.load(root / "pyproject.toml")
        snapshot = copy.deepcopy(config_dict)
        old = os.getcwd()
        os.chdir(root)
        try:
            with warnings.catch_warnings():
                warnings.simplefilter("ignore")
                from ariadne_codegen.config import get_client_settings, get_graphql_schema_settings
                try:
                    (get_client_settings if strategy == "client" else get_graphql_schema_settings)(config_dict)
                except Exception as e:  # noqa: BLE001
                    violations.append(Violation(PROP, "valid-accepted", "valid configuration %s refused by settings: %s: %s" % (label, type(e).__name__, e), ["valid." + label],
                                                dict(case), mech="valid-refused:" + label))
        finally:
            os.chdir(old)
        stats["settings_reads"] = 1
        if config_dict != snapshot:
            violations.append(Violation(PROP, "settings-do-not-mutate", "%s: configuration dict changed by reading settings" % label, ["valid." + label], dict(case), mech="mutated:" + label))
        with warnings.catch_warnings():
            warnings.simplefilter("ignore")
            g = run_cli(root, strategy, cfg)
        stats["valid_runs"] = 1
        if not g.ok:
            violations.append(Violation(PROP, "valid-accepted", "valid configuration %s (%s) rejected: %s: %s" % (label, strategy, g.exc_type, str(g.exception)[:300]), ["valid." + label],
                                        dict(case), mech="valid-refused:" + label))
    return CaseResult("violated" if violations else "held", [v.to_json() for v in violations], stats, {"features": ["valid." + label]})


def all_cases(tier: str) -> List[Dict[str, Any]]:
    cases: List[Dict[str, Any]] = []
    states = ["absent", "empty", "previous", "unrelated"]
    idx = 0
    for label, strategy, _ in config_faults():
        for st in (states if tier == "thorough" else [states[idx % 4], states[(idx + 2) % 4]]):
            cases.append({"kind": "config", "label": label, "strategy": strategy, "state": st, "idx": idx})
        idx += 1
    for where in ("schema", "queries", "schema-dir", "queries-dir", "schema-dir-dangling-description", "schema-dir-truncated", "schema-dir-empty-file",
                  "queries-dir-split-fragment", "queries-dir-empty-file"):
        for st in states:
            cases.append({"kind": "syntax", "label": where, "where": where, "strategy": "client", "state": st, "idx": idx})
        if where.startswith("schema"):
            cases.append({"kind": "syntax", "label": where, "where": where, "strategy": "graphqlschema", "state": "previous", "idx": idx})
        idx += 1
    for label, _ in INVALID_SCHEMAS:
        for strategy in ("client", "graphqlschema"):
            for st in (states if tier == "thorough" else [states[idx % 4]]):
                cases.append({"kind": "schema", "label": label, "strategy": strategy, "state": st, "idx": idx})
        idx += 1
    for label in ("Exceptions", "Client", "Enums", "InputTypes", "BaseModel", "AsyncBaseClient", "input_types", "Fragments"):
        for st in (states if tier == "thorough" else [states[idx % 4], "previous"]):
            cases.append({"kind": "collision", "label": label, "strategy": "client", "state": st, "idx": idx})
        idx += 1
    for label, text in INVALID_OPS:
        for st in (states if tier == "thorough" else [states[idx % 4], "previous"]):
            cases.append({"kind": "operation", "label": label, "strategy": "client", "state": st, "idx": idx})
        from graphql import parse as _parse
        try:
            several = len(_parse(text).definitions) >= 2
        except Exception:  # noqa: BLE001
            several = False
        if several:
            for st in (states if tier == "thorough" else [states[(idx + 1) % 4]]):
                cases.append({"kind": "operation", "label": label, "strategy": "client", "state": st, "idx": idx, "layout": "dir"})
        idx += 1
    return cases


VALID = [("unknown-keys-nested", "client"), ("headers-dollar-inside", "client"), ("headers-dollar-inside", "graphqlschema"), ("headers-env", "client"), ("headers-env", "graphqlschema"), ("unknown-keys", "client"), ("unknown-keys", "graphqlschema"), ("deprecated-section", "client"), ("bool-comments", "client"), ("headers-literal", "client"),
         ("custom-base-client", "client"), ("all-names-custom", "client"), ("unused-fragment", "client"), ("scalar-full", "client"), ("target-upper-ext", "graphqlschema"),
         ("plain", "client"), ("plain", "graphqlschema"), ("custom-base-client-in-block", "client"), ("package-path-nested", "client")] + [
    ("names-set-%d" % k, "client") for k in range(6)] + [("package-named-%s" % n, "client") for n in ("client", "enums", "input_types", "fragments", "base_model", "exceptions")] + [
    ("target-mixed-ext:%s" % n, "graphqlschema") for n in ("Schema.GraphQL", "schema.GQL", "schema.Gql", "SCHEMA.PY")]


try:
    KNOWN_INVALID_SCHEMA_OUTCOMES = json.load(open(os.path.join(os.path.dirname(os.path.abspath(__file__)), "c17_invalid_schema_outcomes.json")))
except OSError:
    KNOWN_INVALID_SCHEMA_OUTCOMES = {}


def schema_mechanism(label: str) -> str:
    return "invalid-schema-not-rejected"


def run(tier: str, seed: int) -> int:
    r = core.Run(PROP, tier, seed, level="fault_enumeration")
    r.rule = ("one case per documented configuration constraint x 2-4 concrete violations, 9 syntax-error placements (single files, directories, files that are invalid alone but would parse when glued to their neighbour, empty files), %d invalid schemas (one per graphql-core schema validation "
              "branch, each confirmed invalid by graphql-core in the harness), %d invalid operations (one or more per specified validation rule, confirmed likewise), each x "
              "target states {absent, empty, previous generation, unrelated user files} (quick: 1-2 states per fault, thorough: all four); plus %d valid configurations; "
              "distinct = distinct fault label" % (len(INVALID_SCHEMAS), len(INVALID_OPS), len(VALID)))
    r.assumptions = ["sys.addaudithook sees every file-system mutation made from Python code", "graphql-core decides what an invalid schema / operation is"]
    r.floors = {"faults_run": 150, "no_side_effect_checks": 100, "typed_errors": 100, "valid_runs": 10}
    cases = all_cases(tier)

    def on_result(case, res):
        # known findings for this property are keyed by class of fault
        for v in res.violations:
            m = v.get("mech", "")
            if ":schema:" in m or m.endswith(tuple("schema:" + l for l, _ in INVALID_SCHEMAS)):
                # the listed finding covers what the unchanged tree does with each invalid schema (recorded per schema and strategy in
                # c17_invalid_schema_outcomes.json: accepted / which untyped exception / which side effects); any OTHER outcome for the same schema is new
                key = "%s/%s" % (case.get("label"), case.get("strategy"))
                if "%s|%s" % (v.get("clause"), m) in KNOWN_INVALID_SCHEMA_OUTCOMES.get(key, ()):
                    v["mech"] = "invalid-schema-not-rejected-with-typed-error"
                else:
                    v["mech"] = "c17:invalid-schema-outcome-not-the-listed-one:" + m
        r.add(case, res)
        for f in res.sets.get("faults", []):
            r.mark_distinct(f)

    core.run_forked(cases, worker, timeout_s=120, on_result=on_result)
    vcases = [{"label": l, "strategy": s} for l, s in VALID]
    def on_valid(c, res):
        r.add(c, res)
        r.mark_distinct("valid/" + c["label"] + "/" + c["strategy"])

    core.run_forked(vcases, valid_worker, timeout_s=120, on_result=on_valid)
    r.exhaustive = True
    return r.finish()


def replay(data) -> int:
    case = data["case"]
    res = core.run_forked([case], worker if "kind" in case else valid_worker)[0]
    print("status:", res.status, res.note)
    for v in res.violations:
        print("-", v["clause"], "[", v["mech"], "] ::", v["detail"][:1500])
    return 1 if res.violations else 0
