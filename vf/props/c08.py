"""C08 - fragments and mixins are honoured as reusable base types.

Observations: classes of the objects the real client returns, `FragmentClass.model_validate(sub-payload)`,
import outcome under permuted/split definition orders, `__bases__` of every generated class.
Oracle: an independent walker over the authored documents lists the spread sites the statement talks about.
"""
from __future__ import annotations

import itertools
import json
import random
import sys
import typing
import warnings
from typing import Any, Dict, List, Optional, Set, Tuple

from .. import core, oracles
from ..core import CaseResult, Violation
from . import _clientworld as cw

PROP = "C08"

MIXINS_SRC = '''"""Mixins shipped by the verification harness via files_to_include."""


class MixinA:
    def mixin_a(self):
        return "A"


class MixinB:
    def mixin_b(self):
        return "B"
'''


def pascal(name: str) -> str:
    return "".join(p[:1].upper() + p[1:] for p in name.split("_"))


def analyse(doc, schema):
    """-> (obligations [(op, path keys, fragment, runtime filter)], mixin sites [(op, path keys, class name)], fragment-def mixins {frag: [cls]})"""
    from graphql import FieldNode, FragmentDefinitionNode, FragmentSpreadNode, GraphQLObjectType, InlineFragmentNode, OperationDefinitionNode, get_named_type

    frags = {d.name.value: d for d in doc.definitions if isinstance(d, FragmentDefinitionNode)}

    def has_inline(selset) -> bool:
        for s in selset.selections:
            if isinstance(s, InlineFragmentNode):
                return True
            if isinstance(s, FieldNode) and s.selection_set and has_inline(s.selection_set):
                return True
        return False

    def refining(selset, tname: str, seen=()) -> bool:
        for s in selset.selections:
            if isinstance(s, InlineFragmentNode):
                if s.type_condition is not None and s.type_condition.name.value != tname:
                    return True
                if refining(s.selection_set, tname, seen):
                    return True
            elif isinstance(s, FragmentSpreadNode):
                f = frags[s.name.value]
                if f.type_condition.name.value != tname:
                    return True
                if s.name.value not in seen and refining(f.selection_set, tname, seen + (s.name.value,)):
                    return True
        return False

    def conditional(node) -> bool:
        return any(d.name.value in ("skip", "include") for d in (node.directives or ()))

    def mixins_of(node) -> List[str]:
        out = []
        for d in node.directives or ():
            if d.name.value == "mixin":
                args = {a.name.value: a.value.value for a in d.arguments}
                out.append(args.get("import"))
        return out

    obligations = []
    mixin_sites = []
    for op in doc.definitions:
        if not isinstance(op, OperationDefinitionNode):
            continue
        root = {"query": schema.query_type, "mutation": schema.mutation_type, "subscription": schema.subscription_type}[op.operation.value]

        def visit(selset, path, t, active, filt, stack):
            for s in selset.selections:
                if isinstance(s, FieldNode):
                    if s.name.value == "__typename" or not hasattr(t, "fields"):
                        continue
                    key = s.alias.value if s.alias else s.name.value
                    ft = get_named_type(t.fields[s.name.value].type)
                    for m in mixins_of(s):
                        if s.selection_set is not None:
                            mixin_sites.append((op.name.value, path + (key,), m, active and not stack))
                    if s.selection_set is not None:
                        visit(s.selection_set, path + (key,), ft, True, None, stack)
                elif isinstance(s, InlineFragmentNode):
                    if conditional(s):
                        active = False  # whatever is spread inside a conditional fragment cannot be a base class (its fields may be absent)
                    if s.type_condition is None or s.type_condition.name.value == t.name:
                        visit(s.selection_set, path, t, active, filt, stack)
                    else:
                        x = schema.type_map[s.type_condition.name.value]
                        if isinstance(x, GraphQLObjectType):
                            visit(s.selection_set, path, x, active, {x.name}, stack)
                        else:
                            visit(s.selection_set, path, x, False, None, stack)
                elif isinstance(s, FragmentSpreadNode):
                    name = s.name.value
                    if name in stack:
                        continue
                    f = frags[name]
                    ft = schema.type_map[f.type_condition.name.value]
                    qualifies = (active and not conditional(s) and ft.name == t.name and not has_inline(f.selection_set)
                                 and (isinstance(t, GraphQLObjectType) or not refining(selset, t.name)))
                    if qualifies and path:
                        obligations.append((op.name.value, path, name, sorted(filt) if filt else None))
                    visit(f.selection_set, path, ft, qualifies, filt, stack + (name,))

        visit(op.selection_set, (), root, True, None, ())
    frag_mixins = {n: mixins_of(f) for n, f in frags.items() if mixins_of(f)}
    return obligations, mixin_sites, frag_mixins, frags


def objects_at(raw, obj, keys: Tuple[str, ...]):
    """Yield (raw sub-payload, returned object) for every object at a key path (list indices expanded)."""
    from pydantic import BaseModel

    if isinstance(raw, list):
        if isinstance(obj, list) and len(obj) == len(raw):
            for r, o in zip(raw, obj):
                yield from objects_at(r, o, keys)
        return
    if raw is None or not isinstance(raw, dict) or not isinstance(obj, BaseModel):
        return
    if not keys:
        yield raw, obj
        return
    k = keys[0]
    if k not in raw:
        return
    names = oracles.wire_map(type(obj)).get(k, [])
    if len(names) != 1:
        return
    yield from objects_at(raw[k], getattr(obj, names[0]), keys[1:])


def classes_in_annotation(ann) -> List[type]:
    from pydantic import BaseModel

    out = []
    origin = typing.get_origin(ann)
    if origin is typing.Annotated:
        return classes_in_annotation(typing.get_args(ann)[0])
    if origin is not None:
        for a in typing.get_args(ann):
            out.extend(classes_in_annotation(a))
        return out
    if isinstance(ann, type) and issubclass(ann, BaseModel):
        return [ann]
    return out


def classes_for_path(root_cls, keys: Tuple[str, ...]) -> List[type]:
    current = [root_cls]
    for k in keys:
        nxt: List[type] = []
        for c in current:
            names = oracles.wire_map(c).get(k, [])
            for n in names:
                try:
                    hints = typing.get_type_hints(c, include_extras=True)
                    ann = hints[n]
                except Exception:  # noqa: BLE001
                    ann = c.model_fields[n].annotation
                nxt.extend(classes_in_annotation(ann))
        current = list(dict.fromkeys(nxt))
    return current


def worker(case: Dict[str, Any]) -> CaseResult:
    from graphql import FragmentDefinitionNode, OperationDefinitionNode, parse

    from ..genpkg import RefServer, call_method, find_methods, import_package, make_client, patched_ws, probe_param_map, run_cli, write_case
    from ..world import World

    stats: Dict[str, Any] = {}
    violations: List[Violation] = []

    def count(k, n=1):
        stats[k] = stats.get(k, 0) + n

    case = dict(case)
    case["mixins"] = [(".mixins_mod", "MixinA"), (".mixins_mod", "MixinB")]
    built = cw.build_inputs(case)
    if built is None:
        return CaseResult("inconclusive", note="generator could not produce a valid schema/document", stats={"gen_invalid": 1})
    sdl, frs, ops, names, feats, schema_ref = built
    feats = set(cw.case_features(case, feats))
    cfg_full = {k: v for k, v in case["cfg"].items() if not k.startswith("_")}
    defs = frs + ops
    queries = "\n\n".join(defs)
    authored = parse(queries)
    obligations, mixin_sites, frag_mixins, frags = analyse(authored, schema_ref)
    replay_case = {k: v for k, v in case.items()}
    replay_case["_sdl"] = sdl
    replay_case["_queries"] = queries
    rng = random.Random(case["seed"] * 23 + case["idx"])
    fl = sorted(feats)
    with core.Scratch() as root:
        (root / "mixins_mod.py").write_text(MIXINS_SRC)
        cfg_full["files_to_include"] = [str(root / "mixins_mod.py")]
        cfg = write_case(root, sdl, queries, cfg_full)
        with warnings.catch_warnings():
            warnings.simplefilter("ignore")
            gen = run_cli(root, "client", cfg)
        if not gen.ok:
            return CaseResult("inconclusive", note="generation failed (%s: %s) - C04's concern" % (gen.exc_type, str(gen.exception)[:300]), stats={"generation_failed": 1})
        try:
            pkg = import_package(root, "graphql_client")
            errs = cw.import_all_modules(pkg, gen.package_dir)
        except BaseException as e:  # noqa: BLE001
            errs = [("package", "%s: %s" % (type(e).__name__, str(e)[:300]))]
        if errs:
            violations.append(Violation(PROP, "module-loads", "authored order: %r" % errs[:2], fl, replay_case, mech="c08:module-loads"))
            return CaseResult("violated", [v.to_json() for v in violations], stats, {"features": fl})
        count("generated")
        frag_mod = sys.modules.get("graphql_client." + cfg_full.get("fragments_module_name", "fragments"))  # "the fragments module" is the one the configuration names
        mix_mod = sys.modules.get("graphql_client.mixins_mod")
        # ---- every qualifying fragment has its class, whatever other operations do with it
        needed = sorted({f for _, _, f, _ in obligations})
        for f in needed:
            count("fragment_classes_required")
            if frag_mod is None or not hasattr(frag_mod, pascal(f)):
                from graphql import GraphQLUnionType
                on_union = isinstance(schema_ref.type_map[frags[f].type_condition.name.value], GraphQLUnionType)
                violations.append(Violation(PROP, "fragment-class-exists", "fragment %s is directly spread on its own type but fragments.%s does not exist" % (f, pascal(f)),
                                            fl, replay_case, mech="fragment-on-union-no-class" if on_union else "c08:fragment-class-exists"))
        # ---- returned objects are instances of the fragment classes
        server = RefServer(schema_ref)
        client, is_async = make_client(pkg, cfg, server)
        methods = find_methods(pkg, cfg, names)
        op_nodes = {d.name.value: d for d in authored.definitions if isinstance(d, OperationDefinitionNode)}
        root_classes: Dict[str, type] = {}
        for op_name in names:
            mname = methods.get(op_name)
            if mname is None:
                continue
            opnode = op_nodes[op_name]
            is_sub = opnode.operation.value == "subscription"
            pmap = probe_param_map(client, is_async, mname, server, is_sub)
            my_obl = [o for o in obligations if o[0] == op_name]
            for wi, (mode, rot) in enumerate([("full", 0), ("full", 1), ("full", 2), ("nulls", 0)]):
                world = World(schema_ref, seed=case["seed"] * 10 + wi, mode=mode, rotation=rot)
                server.world = world
                kwargs = cw.argument_values(opnode, schema_ref, pkg, cfg, rng, pmap)
                if kwargs is None:
                    break
                if is_sub:
                    with patched_ws(client, server, [world]):
                        status, value = call_method(client, is_async, mname, kwargs)
                else:
                    status, value = call_method(client, is_async, mname, kwargs)
                resp = server.responses[-1] if server.responses else {}
                if status != "ok" or resp.get("errors") or resp.get("data") is None:
                    count("calls_not_clean")
                    continue
                if is_sub:
                    if not (isinstance(value, list) and len(value) == 1):
                        continue
                    value = value[0]
                root_classes[op_name] = type(value)
                data = resp["data"]
                count("responses")
                for _, path, f, filt in my_obl:
                    cls = getattr(frag_mod, pascal(f), None) if frag_mod else None
                    if cls is None:
                        continue
                    for raw, obj in objects_at(data, value, path):
                        if filt and raw.get("__typename") not in filt:
                            continue
                        count("instance_checks")
                        if not isinstance(obj, cls):
                            violations.append(Violation(PROP, "instance-of-fragment-class", "%s: object at %r (class %s, bases %r) is not an instance of fragments.%s although %s is spread directly on its own type" % (
                                op_name, path, type(obj).__name__, [b.__name__ for b in type(obj).__mro__[1:4]], pascal(f), f), fl, replay_case, mech="c08:instance-of-fragment-class"))
                            break
                        try:
                            cls.model_validate(raw)
                            count("fragment_class_validates")
                        except BaseException as e:  # noqa: BLE001
                            violations.append(Violation(PROP, "fragment-class-validates", "%s: fragments.%s rejects the payload its subclass accepted at %r: %s" % (op_name, pascal(f), path, str(e)[:300]),
                                                        fl, replay_case, mech="c08:fragment-class-validates"))
                            break
        # ---- mixins: base of exactly the classes generated for that node
        allowed: Dict[str, Set[type]] = {"MixinA": set(), "MixinB": set()}
        for op_name, path, m, direct in mixin_sites:
            rc = root_classes.get(op_name)
            if rc is None:
                continue
            classes = classes_for_path(rc, path)
            if not direct:
                # the annotated field is reached through a named fragment or a conditional fragment: whichever class validates the object at that
                # path (the operation's own, or the fragment's field class it inherits from) must still carry the mixin
                count("mixin_sites_through_fragments")
                for c in classes:
                    count("mixin_mro_checks")
                    if getattr(mix_mod, m) not in c.__mro__:
                        violations.append(Violation(PROP, "mixin-is-base", "%s: class %s generated for the field at %r (reached through a fragment) does not inherit %s (mro %r)" % (
                            op_name, c.__name__, path, m, [b.__name__ for b in c.__mro__[:6]]), fl, replay_case, mech="c08:mixin-is-base-through-fragment"))
                continue
            count("mixin_sites")
            if not classes:
                continue
            for c in classes:
                allowed[m].add(c)
                count("mixin_base_checks")
                if getattr(mix_mod, m) not in c.__bases__:
                    violations.append(Violation(PROP, "mixin-is-base", "%s: class %s generated for the field at %r lacks base %s (bases %r)" % (
                        op_name, c.__name__, path, m, [b.__name__ for b in c.__bases__]), fl, replay_case, mech="c08:mixin-is-base"))
        for fname, ms in frag_mixins.items():
            c = getattr(frag_mod, pascal(fname), None) if frag_mod else None
            for m in ms:
                if c is not None:
                    allowed[m].add(c)
                    if getattr(mix_mod, m) not in c.__bases__:
                        violations.append(Violation(PROP, "mixin-is-base", "fragment class %s lacks base %s" % (c.__name__, m), fl, replay_case, mech="c08:mixin-is-base-fragment"))
        # @mixin on fields inside fragment definitions: the classes generated for the fragment (in the fragments module) carry them
        from graphql import FieldNode as _F, InlineFragmentNode as _I, get_named_type as _gnt
        frag_field_mixins_ok = True
        for fname, fdef in frags.items():
            fcls = getattr(frag_mod, pascal(fname), None) if frag_mod else None

            def fvisit(selset, path, t):
                nonlocal frag_field_mixins_ok
                for s_ in selset.selections:
                    if isinstance(s_, _F) and s_.selection_set is not None and hasattr(t, "fields") and s_.name.value in t.fields:
                        key = s_.alias.value if s_.alias else s_.name.value
                        for d_ in s_.directives or ():
                            if d_.name.value == "mixin":
                                m_ = {a.name.value: a.value.value for a in d_.arguments}.get("import")
                                if fcls is None:
                                    frag_field_mixins_ok = False
                                else:
                                    for c_ in classes_for_path(fcls, path + (key,)):
                                        allowed[m_].add(c_)
                        fvisit(s_.selection_set, path + (key,), _gnt(t.fields[s_.name.value].type))
                    elif not isinstance(s_, _F):
                        frag_field_mixins_ok = False  # inline fragments / spreads inside a fragment definition: exclusivity not decidable from here
            fvisit(fdef.selection_set, (), schema_ref.type_map[fdef.type_condition.name.value])
        sites_complete = (frag_field_mixins_ok and all(root_classes.get(op) is not None for op, _, _, _ in mixin_sites)
                          and all(d for _, _, _, d in mixin_sites))
        if sites_complete:
            for c in cw.models_of(pkg, gen.package_dir):
                for m in ("MixinA", "MixinB"):
                    if getattr(mix_mod, m) in c.__bases__:
                        count("mixin_exclusivity_checks")
                        if c not in allowed[m]:
                            violations.append(Violation(PROP, "mixin-only-there", "class %s.%s has base %s but no @mixin names it for the node that class is generated for" % (
                                c.__module__, c.__name__, m), fl, replay_case, mech="c08:mixin-only-there"))
        # ---- definition order / file split permutations: the package always loads
        n_perm = 5 if case.get("tier") == "thorough" else 2
        perms = []
        if len(defs) <= 3:
            perms = list(itertools.permutations(range(len(defs))))[1:]
        else:
            for _ in range(n_perm):
                p = list(range(len(defs)))
                rng.shuffle(p)
                perms.append(tuple(p))
            perms.append(tuple(reversed(range(len(defs)))))
        for pi, perm in enumerate(perms[: n_perm + 1]):
            with core.Scratch() as proot:
                (proot / "mixins_mod.py").write_text(MIXINS_SRC)
                pcfg = dict(cfg_full)
                pcfg["files_to_include"] = [str(proot / "mixins_mod.py")]
                pcfg["target_package_name"] = "perm_pkg_%d" % pi
                ordered = [defs[i] for i in perm]
                if pi % 2 == 0:
                    k = max(1, len(ordered) // 2)
                    qf = {"b_second.graphql": "\n\n".join(ordered[:k]), "a_first.gql": "\n\n".join(ordered[k:]) or "# empty\n"}
                    if not ordered[k:]:
                        qf = {"only.graphql": "\n\n".join(ordered)}
                    pc = write_case(proot, sdl, None, pcfg, query_files=qf)
                    feats.add("order.split_files")
                else:
                    pc = write_case(proot, sdl, "\n\n".join(ordered), pcfg)
                with warnings.catch_warnings():
                    warnings.simplefilter("ignore")
                    g2 = run_cli(proot, "client", pc)
                count("permutations")
                if not g2.ok:
                    violations.append(Violation(PROP, "generates-any-order", "definition order %r: generation failed: %s: %s" % (perm, g2.exc_type, str(g2.exception)[:300]),
                                                fl, replay_case, mech="c08:generates-any-order"))
                    continue
                try:
                    p2 = import_package(proot, "perm_pkg_%d" % pi)
                    errs = cw.import_all_modules(p2, g2.package_dir)
                except BaseException as e:  # noqa: BLE001
                    errs = [("package", "%s: %s" % (type(e).__name__, str(e)[:300]))]
                if errs:
                    violations.append(Violation(PROP, "module-loads", "definition order %r: %r" % (perm, errs[:2]), fl, replay_case, mech="c08:module-loads"))
                else:
                    count("permutations_loaded")
    sample = None
    if case["idx"] < 2:
        sample = {"fragments": [f[:200] for f in frs], "obligations": obligations[:6], "mixin_sites": [list(m) for m in mixin_sites[:4]]}
    return CaseResult("violated" if violations else "held", [v.to_json() for v in violations], stats, {"features": sorted(feats)}, sample=sample)


def run(tier: str, seed: int) -> int:
    r = core.Run(PROP, tier, seed)
    r.rule = ("seeded schemas x operation sets with many fragments on few types (chains, diamonds, shared, unused, on objects/interfaces/unions, with inline fragments) and "
              "@mixin on fields; an independent walker lists every direct spread of an inline-free fragment on its own type; returned objects at those positions must be "
              "instances of the fragment class which must validate the same sub-payload; 3-7 permutations / file splits of the definitions must all generate and import; "
              "mixin bases are checked on exactly the classes reachable for the annotated field; distinct = distinct feature-set")
    r.assumptions = ["graphql-core reference server", "'has no inline fragments' is read as: none anywhere inside the fragment (fewest obligations)"]
    r.floors = {"instance_checks": 100, "fragment_class_validates": 100, "permutations_loaded": 100, "mixin_base_checks": 30}
    n = 900 if tier == "thorough" else 90
    cases = [cw.make_case(seed, i, dirty=(["frag.many"] if i % 3 else []) + (["mixin.on_fragment_def"] if i % 2 else []), tier=tier) for i in range(n)]
    for i, c in enumerate(cases):
        if i % 5 == 2:
            c["cfg"] = dict(c["cfg"], fragments_module_name=["shared_query", "parts", "Fragments2"][(i // 5) % 3])

    for c in cw.fraggraph_cases(PROP, tier, seed, 600 if tier == "thorough" else 80):
        c.pop("props", None)
        cases.append(c)

    def on_result(case, res):
        r.add(case, res)
        if res.status != "inconclusive":
            r.mark_distinct(tuple(sorted(res.sets.get("features", []))))

    core.run_forked(cases, worker, timeout_s=240, on_result=on_result)
    return r.finish()


def replay(data) -> int:
    case = dict(data["case"])
    res = core.run_forked([case], worker)[0]
    print("status:", res.status, res.note)
    for v in res.violations:
        print("-", v["clause"], "::", v["detail"][:1500])
    return 1 if res.violations else 0
