"""C18 - GraphQL names map lawfully to Python names.

Part A: the real utils.process_name / str_to_snake_case under icontract postconditions, driven exhaustively over
        [_A-Za-z][_0-9A-Za-z]* on the reduced alphabet {a,b,A,B,1,_} up to the length bound, all Python keywords /
        soft keywords / public pydantic BaseModel attributes with prefixes, suffixes and case variants, for every
        flag combination the generator uses.
Part B: the same contracts re-bound into every generator module and evaluated in situ during real generation of
        schemas whose names come from the dirty name classes; the generated package is then loaded and driven
        (C01/C04 machinery) so that 'the original name stays the wire name' is observed on real responses.
Part C: pairs of distinct names that collide after mapping, placed in each scope kind (response keys, input fields,
        variables, operations, enum values): generation must fail with a CodeGenException or keep both usable.
"""
from __future__ import annotations

import itertools
import json
import keyword
import random
import re
import sys
import warnings
from typing import Any, Dict, List, Optional, Tuple

from .. import core
from ..core import CaseResult, Violation
from . import _clientworld as cw

PROP = "C18"
NAME_RE = re.compile(r"^[_A-Za-z][_0-9A-Za-z]*$")

# call-site flag combinations: (convert_to_snake_case, trim_leading_underscore, handle_pydantic_reserved)
FLAG_SETS = [(True, True, True), (False, True, True), (True, False, False), (False, False, False)]


def alnum(s: str) -> List[str]:
    return [c.lower() for c in s if c.isalnum()]


def known_mechanism(name: str, snake: bool, trim: bool, clause: str) -> Optional[str]:
    """Exact name predicates of the listed findings."""
    if re.match(r"^_+$", name):
        return "name-only-underscores"
    if re.match(r"^_+[0-9]", name) and (snake or trim):
        return "name-leading-underscore-then-digit"
    return None


def name_universe(max_len: int) -> List[str]:
    from pydantic import BaseModel

    out = []
    for n in range(1, max_len + 1):
        for t in itertools.product("abAB1_", repeat=n):
            s = "".join(t)
            if NAME_RE.match(s):
                out.append(s)
    specials = list(keyword.kwlist) + list(keyword.softkwlist) + [a for a in dir(BaseModel) if not a.startswith("_")]
    specials += ["mro", "name", "value", "_ignore_", "_order_", "_missing_", "self", "cls", "kwargs", "query", "variables", "response", "data", "typename__", "__typename"]
    for e in specials:
        if not NAME_RE.match(e):
            continue
        for v in (e, "_" + e, "__" + e, e + "_", e.upper(), e.capitalize(), "".join(p.capitalize() for p in e.split("_")), e + "1", "x_" + e):
            if NAME_RE.match(v):
                out.append(v)
    # beyond the length bound of the enumeration: names as long as real schemas carry them - long runs of capitals, of digits, of underscores, many words,
    # one enormous word (the laws are the same for every length)
    words = ["customer", "Account", "ID", "URL", "v2", "HTTP", "legacy", "X", "identification", "NUMBER"]
    rng = random.Random(18)
    for n in (33, 34, 40, 64, 65, 100, 129, 257):
        out += ["A" * n, "a" * n, "aB" * (n // 2), "A" * n + "b", "x" + "A" * n, "a" + "1" * n, "a" + "_" * n + "b", "A" * n + "Legacy" + "B" * n, "_" + "A" * n]
    for k in (6, 12, 25, 60):
        for style in range(4):
            ws = [rng.choice(words) for _ in range(k)]
            out.append(["".join(w.capitalize() for w in ws), "_".join(ws), ws[0].lower() + "".join(w.upper() for w in ws[1:]), "".join(ws)][style])
    return list(dict.fromkeys(x for x in out if NAME_RE.match(x)))


def install_contracts(record: Dict[str, Any]):
    """icontract postconditions on the real functions; conditions record and return True so that one bad name does not hide the rest."""
    sys.path.append(str(core.VERIF / ".deps"))
    import icontract

    from ariadne_codegen import utils

    import pydantic
    pyd = {a for a in dir(pydantic.BaseModel) if not a.startswith("_")}  # the harness' own list, not the repository's
    orig_process = utils.process_name
    orig_snake = utils.str_to_snake_case

    def process_name_lawful(name, convert_to_snake_case, result, plugin_manager=None, node=None, trim_leading_underscore=False, handle_pydantic_resrved_field_names=False):
        record["evals"] = record.get("evals", 0) + 1
        probs = []
        if not result.isidentifier():
            probs.append("identifier")
        if keyword.iskeyword(result):
            probs.append("not-keyword")
        if handle_pydantic_resrved_field_names and result in pyd:
            probs.append("not-pydantic-attribute")
        if trim_leading_underscore and result.startswith("_"):
            probs.append("no-leading-underscore")
        if alnum(result)[: len(alnum(name))] != alnum(name) and not re.match(r"^_+$", name):
            probs.append("keeps-letters-and-digits")
        for p in probs:
            record.setdefault("bad", []).append((p, name, result, bool(convert_to_snake_case), bool(trim_leading_underscore), bool(handle_pydantic_resrved_field_names)))
        return True

    def snake_lawful(name, result):
        record["snake_evals"] = record.get("snake_evals", 0) + 1
        if [c for c in result if c.isalnum()] != alnum(name):
            record.setdefault("bad", []).append(("snake-keeps-letters-and-digits", name, result, True, False, False))
        if result != result.lower():
            record.setdefault("bad", []).append(("snake-is-lower", name, result, True, False, False))
        return True

    wrapped_process = icontract.ensure(process_name_lawful)(orig_process)
    wrapped_snake = icontract.ensure(snake_lawful)(orig_snake)
    utils.process_name = wrapped_process
    utils.str_to_snake_case = wrapped_snake
    # re-bind in every module that imported the names before we decorated them
    rebound = 0
    for mname, mod in list(sys.modules.items()):
        if mname.startswith("ariadne_codegen") and mod is not None:
            if getattr(mod, "process_name", None) is orig_process:
                setattr(mod, "process_name", wrapped_process)
                rebound += 1
            if getattr(mod, "str_to_snake_case", None) is orig_snake:
                setattr(mod, "str_to_snake_case", wrapped_snake)
                rebound += 1
    record["rebound"] = rebound
    return wrapped_process, wrapped_snake


def part_a(r: core.Run, tier: str) -> None:
    import ariadne_codegen.client_generators.package  # noqa: F401 - make sure every importer exists before re-binding
    import ariadne_codegen.client_generators.custom_operation  # noqa: F401
    import ariadne_codegen.contrib.extract_operations  # noqa: F401

    record: Dict[str, Any] = {}
    process_name, snake = install_contracts(record)
    names = name_universe(7 if tier == "thorough" else 6)
    r.count("a.names", len(names))
    for name in names:
        for sn, trim, pyd in FLAG_SETS:
            res = process_name(name, convert_to_snake_case=sn, trim_leading_underscore=trim, handle_pydantic_resrved_field_names=pyd)
            res2 = process_name(name, convert_to_snake_case=sn, trim_leading_underscore=trim, handle_pydantic_resrved_field_names=pyd)
            r.evaluations += 1
            if res != res2:
                record.setdefault("bad", []).append(("deterministic", name, res, sn, trim, pyd))
            again = process_name(res, convert_to_snake_case=sn, trim_leading_underscore=trim, handle_pydantic_resrved_field_names=pyd) if res.isidentifier() else res
            if again != res:
                record.setdefault("bad", []).append(("idempotent", name, "%s -> %s" % (res, again), sn, trim, pyd))
        r.mark_distinct(name)
    r.count("a.contract_evaluations", record.get("evals", 0))
    r.count("a.snake_contract_evaluations", record.get("snake_evals", 0))
    r.count("a.modules_rebound", record.get("rebound", 0))
    bad = record.get("bad", [])
    r.held += r.evaluations - len({(b[1], b[3], b[4], b[5]) for b in bad})
    grouped: Dict[Tuple[str, str], List[Any]] = {}
    for clause, name, res, sn, trim, pyd in bad:
        mech = known_mechanism(name, sn, trim, clause) or "c18:law:%s:snake=%s:trim=%s" % (clause, sn, trim)
        grouped.setdefault((clause, mech), []).append((name, res, sn, trim, pyd))
    for (clause, mech), items in grouped.items():
        for name, res, sn, trim, pyd in items[:3]:
            r.add_violation(Violation(PROP, "law-" + clause, "process_name(%r, snake=%s, trim_leading_underscore=%s, pydantic=%s) -> %r violates '%s' (%d names in this class, e.g. %r)" % (
                name, sn, trim, pyd, res, clause, len(items), [i[0] for i in items[:8]]), ["names.exhaustive"], {"kind": "law", "name": name, "flags": [sn, trim, pyd]}, mech=mech))
    r.samples.append({"part": "A", "names_enumerated": len(names), "examples": names[:5] + names[-5:], "flag_sets": FLAG_SETS})


def run(tier: str, seed: int) -> int:
    r = core.Run(PROP, tier, seed)
    r.rule = ("A: exhaustive enumeration of GraphQL names over {a,b,A,B,1,_} up to length 6 (thorough 7) + every keyword / soft keyword / public BaseModel attribute / Enum-reserved "
              "name with prefix, suffix and case variants, x 4 call-site flag sets, through the real process_name under icontract; B: in-situ contracts + load/drive of packages "
              "generated from schemas using dirty name classes; C: colliding name pairs in every scope kind; distinct = distinct name (A) / feature-set (B) / pair x scope (C)")
    r.assumptions = ["Python's str.isidentifier / keyword.iskeyword / dir(pydantic.BaseModel) define the target constraints"]
    part_a(r, tier)
    try:
        from . import c18_gen
        c18_gen.parts_b_c(r, tier, seed)
    except ImportError:
        pass
    r.floors.update({"a.contract_evaluations": 20000, "a.modules_rebound": 5})
    r.exhaustive = False
    return r.finish()


def replay(data) -> int:
    case = data["case"]
    if case.get("kind") == "law":
        core.use_repo()
        from ariadne_codegen.utils import process_name
        sn, trim, pyd = case["flags"]
        print(repr(process_name(case["name"], convert_to_snake_case=sn, trim_leading_underscore=trim, handle_pydantic_resrved_field_names=pyd)))
        return 1
    from . import c18_gen
    return c18_gen.replay(data)
