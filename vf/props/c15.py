"""C15 - bundled plugins preserve client behaviour apart from their documented change.

Differential monitoring: the same inputs are generated without plugins and with plugin lists (subsets / orders of the
four bundled plugins, an identity plugin and two marker plugins shipped by the harness); every package is loaded
and the same calls are made against the reference server; requests, acceptance, returned values, type hints,
operation constants and bytes are compared with the unplugged package.
"""
from __future__ import annotations

import ast
import inspect
import itertools
import json
import random
import sys
import typing
import warnings
from typing import Any, Dict, List, Optional, Tuple

from .. import core, oracles
from ..core import CaseResult, Violation
from . import _clientworld as cw

PROP = "C15"
SR = "ariadne_codegen.contrib.shorter_results.ShorterResultsPlugin"
EO = "ariadne_codegen.contrib.extract_operations.ExtractOperationsPlugin"
FR = "ariadne_codegen.contrib.client_forward_refs.ClientForwardRefsPlugin"
NR = "ariadne_codegen.contrib.no_reimports.NoReimportsPlugin"
ID = "vf_plugins.IdentityPlugin"
MA = "vf_plugins.MarkerA"
MB = "vf_plugins.MarkerB"
MS = "vf_plugins.StripComment"
FR_MODULE = "ariadne_codegen.contrib.client_forward_refs"  # module-path spelling: every Plugin subclass found in the module
SHORT = {FR_MODULE: "ClientForwardRefs(module path)", SR: "ShorterResults", EO: "ExtractOperations", FR: "ClientForwardRefs", NR: "NoReimports", ID: "Identity", MA: "MarkerA", MB: "MarkerB", MS: "StripComment"}


def plugin_lists() -> List[List[str]]:
    out: List[List[str]] = []
    bundled = [SR, EO, FR, NR]
    for k in range(1, 5):
        for combo in itertools.combinations(bundled, k):
            out.append(list(combo))
    for a, b in itertools.permutations(bundled, 2):
        if [a, b] not in out:
            out.append([a, b])
    out.append(list(reversed(bundled)))
    return out


def canon(sent: Dict[str, Any]) -> Dict[str, Any]:
    """A sent request with its document in canonical print (insignificant whitespace and comments do not make two documents differ)."""
    from graphql import parse, print_ast

    out = dict(sent)
    try:
        out["query"] = print_ast(parse(sent.get("query") or ""))
    except Exception:  # noqa: BLE001
        pass
    return out


def root_fragment_overlap(authored, op_name: str) -> bool:
    """The operation spreads a fragment on the root type at top level, so that several top-level selections denote ONE response key."""
    from graphql import FieldNode, FragmentSpreadNode, OperationDefinitionNode
    for d in authored.definitions:
        if isinstance(d, OperationDefinitionNode) and d.name and d.name.value == op_name:
            return any(isinstance(s, FragmentSpreadNode) for s in d.selection_set.selections) and len(d.selection_set.selections) > 1
    return False


def norm(v: Any) -> Any:
    import enum

    from pydantic import BaseModel

    if isinstance(v, BaseModel):
        return {"__model__": {(fi.alias or n): norm(getattr(v, n)) for n, fi in type(v).model_fields.items()}}
    if isinstance(v, enum.Enum):
        return v.value
    if isinstance(v, list):
        return [norm(x) for x in v]
    if isinstance(v, dict):
        return {k: norm(x) for k, x in v.items()}
    return norm_scalar(v)


def scalar_setup(case, schema_ref):
    """-> (scalars config, extra files, token generators) for the cases that configure custom scalars: a pydantic-native type from an absolute
    module, another one, and a class shipped inside the package with parse/serialize (three different import routes for the plugins to preserve)."""
    import datetime

    from graphql import GraphQLScalarType
    customs = sorted(n for n, t in schema_ref.type_map.items() if isinstance(t, GraphQLScalarType) and n not in ("String", "Int", "Float", "Boolean", "ID"))
    conf: Dict[str, Any] = {}
    gens: Dict[str, Any] = {}
    for k, n in enumerate(customs):
        kind = ["datetime", "relative_class", "decimal"][(case["idx"] + k) % 3]
        if kind == "datetime":
            conf[n] = {"type": "datetime.datetime"}
            gens[n] = lambda i: (datetime.datetime(2021, 1, 1) + datetime.timedelta(seconds=i)).isoformat()
        elif kind == "decimal":
            conf[n] = {"type": "decimal.Decimal"}
            gens[n] = lambda i: "%d.25" % i
        else:
            conf[n] = {"type": ".vf_csm.VfTok", "parse": ".vf_csm.parse_tok", "serialize": ".vf_csm.ser_tok"}
            gens[n] = lambda i: "tok#%d" % i
    files = {"vf_csm.py": "class VfTok(str):\n    pass\n\n\ndef parse_tok(value):\n    return VfTok(value)\n\n\ndef ser_tok(value):\n    return str(value)\n"}
    return conf, files, gens


def norm_scalar(v: Any) -> Any:
    import datetime
    import decimal
    if isinstance(v, (datetime.datetime, decimal.Decimal)):
        return "%s:%s" % (type(v).__name__, v)
    return v


def drive(pkg, cfg, schema_ref, authored, names, case) -> Dict[str, Any]:
    """Calls every operation under 3 worlds; -> observations per (op, world)."""
    from graphql import OperationDefinitionNode

    from ..genpkg import RefServer, call_method, find_methods, make_client, patched_ws, probe_param_map
    from ..world import World

    server = RefServer(schema_ref)
    client, is_async = make_client(pkg, cfg, server)
    methods = find_methods(pkg, cfg, names)
    if len(methods) < len(names):
        # ExtractOperations moves the operation name constant elsewhere: fall back to matching by position of public methods
        cls = getattr(pkg, cfg.get("client_name", "Client"), None) or getattr(sys.modules[pkg.__name__ + "." + cfg.get("client_file_name", "client")], cfg.get("client_name", "Client"))
        own = [n for n, f in vars(cls).items() if callable(f) and not n.startswith("_") and n not in ("execute_custom_operation", "query", "mutation")]
        for op, m in zip(names, own):
            methods.setdefault(op, m)
    op_nodes = {d.name.value: d for d in authored.definitions if isinstance(d, OperationDefinitionNode)}
    obs: Dict[str, Any] = {}
    rng = random.Random(case["seed"] * 41 + case["idx"])
    for op_name in names:
        mname = methods.get(op_name)
        if mname is None:
            obs[op_name] = "no-method"
            continue
        opnode = op_nodes[op_name]
        is_sub = opnode.operation.value == "subscription"
        pmap = probe_param_map(client, is_async, mname, server, is_sub)
        for wi, (mode, rot) in enumerate([("full", 0), ("full", 1), ("nulls", 0)]):
            gens = scalar_setup(case, schema_ref)[2] if case.get("scalars") else None
            world = World(schema_ref, seed=case["seed"] * 10 + wi, mode=mode, rotation=rot, custom_scalar_values=gens)
            server.world = world
            kwargs = cw.argument_values(opnode, schema_ref, pkg, cfg, random.Random(wi), pmap, custom_scalar_values=gens)
            if kwargs is None:
                obs["%s/%d" % (op_name, wi)] = "args-unbuildable"
                continue
            n0 = len(server.captured)
            if is_sub:
                with patched_ws(client, server, [world]):
                    status, value = call_method(client, is_async, mname, kwargs)
            else:
                status, value = call_method(client, is_async, mname, kwargs)
            sent = [{k: v for k, v in b.items() if k in ("query", "operationName", "variables")} for b in server.captured[n0:]]
            resp = server.responses[-1] if server.responses else None
            obs["%s/%d" % (op_name, wi)] = {"sent": sent, "status": status, "value": norm(value) if status == "ok" else type(value).__name__,
                                           "raw_value": value if status == "ok" else None, "data": (resp or {}).get("data"), "method": mname}
    return obs


def method_hints(pkg, cfg) -> Dict[str, Any]:
    mod = sys.modules[pkg.__name__ + "." + cfg.get("client_file_name", "client")]
    cls = getattr(mod, cfg.get("client_name", "Client"))
    ns = dict(vars(mod))
    for m in list(sys.modules):
        if m.startswith(pkg.__name__ + ".") and sys.modules[m] is not None:
            ns.update({k: v for k, v in vars(sys.modules[m]).items() if isinstance(v, type)})
    out = {}
    for n, f in vars(cls).items():
        if callable(f) and not n.startswith("_"):
            try:
                hints = typing.get_type_hints(f, globalns=ns)
                import re as _re
                # typing caches ForwardRef evaluation across packages of one process: same-named classes of sibling packages are equivalent here
                out[n] = {k: _re.sub(r"plg_\d+", "PKG", str(v)) for k, v in hints.items()}
            except BaseException as e:  # noqa: BLE001
                out[n] = "unresolvable: %s: %s" % (type(e).__name__, str(e)[:120])
    return out


def worker(case: Dict[str, Any]) -> CaseResult:
    from graphql import parse

    from ..genpkg import generate_in_subprocess, import_package, write_case

    stats: Dict[str, Any] = {}
    violations: List[Violation] = []

    def count(k, n=1):
        stats[k] = stats.get(k, 0) + n

    built = cw.build_inputs(case)
    if built is None:
        return CaseResult("inconclusive", note="generator could not produce a valid schema/document", stats={"gen_invalid": 1})
    sdl, frs, ops, names, feats, schema_ref = built
    feats = set(cw.case_features(case, feats))
    cfg_full = {k: v for k, v in case["cfg"].items() if not k.startswith("_")}
    queries = "\n\n".join(frs + ops)
    authored = parse(queries)
    extra_files = dict(case.get("extra_files") or {})
    if case.get("scalars") and not case.get("_sdl"):
        # one more root field per custom scalar and an operation selecting nothing else: ShorterResults then returns the bare scalar type
        import re as _re

        from graphql import GraphQLScalarType, build_schema
        qname = schema_ref.query_type.name
        customs_ = sorted(n for n, t in schema_ref.type_map.items() if isinstance(t, GraphQLScalarType) and n not in ("String", "Int", "Float", "Boolean", "ID"))
        probe_fields = "".join("  vfProbe%d: %s\n" % (k, [n, "[%s!]" % n, "%s!" % n][k % 3]) for k, n in enumerate(customs_))
        sdl_new = _re.sub(r"(type %s[^{]*\{\n)" % _re.escape(qname), lambda m_: m_.group(1) + probe_fields, sdl, count=1)
        if sdl_new != sdl and customs_:
            try:
                schema_ref = build_schema(sdl_new)
                sdl = sdl_new
                for k in range(len(customs_)):
                    ops.append("query VfProbeOp%d { vfProbe%d }" % (k, k))
                    names.append("VfProbeOp%d" % k)
                queries = "\n\n".join(frs + ops)
                authored = parse(queries)
            except Exception:  # noqa: BLE001
                pass
    if case.get("scalars"):
        sc_conf, sc_files, _ = scalar_setup(case, schema_ref)
        if sc_conf:
            cfg_full["scalars"] = sc_conf
            cfg_full["files_to_include"] = list(cfg_full.get("files_to_include", [])) + ["vf_csm.py"]
            extra_files.update(sc_files)
            feats.add("scalar.config.three_import_routes")
    replay_case = dict(case)
    replay_case["_sdl"] = sdl
    replay_case["_queries"] = queries
    lists: List[List[str]] = [[]] + [list(l) for l in case["plugin_lists"]]
    results: Dict[str, Any] = {}
    with core.Scratch() as root:
        for li, plist in enumerate(lists):
            label = "+".join(SHORT[p] for p in plist) or "none"
            name = "plg_%d" % li
            cfg_l = dict(cfg_full)
            cfg_l["plugins"] = plist
            cfg_l["target_package_name"] = name
            cfg_l["include_comments"] = "stable"
            if case.get("eo_module") and EO in plist:
                cfg_l["extract-operations"] = {"operations_module_name": case["eo_module"]}  # the plugin's own documented option
                feats.add("plugin.extract_operations.module_name")
            cfg = write_case(root, sdl, queries, cfg_l, extra_files=extra_files or None, section_style=case.get("section_style", "tool"))
            from pathlib import Path
            from types import SimpleNamespace
            gd = generate_in_subprocess(root, "client", cfg)
            gen = SimpleNamespace(ok=gd["ok"], exc_type=gd["exc_type"], exception=gd["exc"], traceback=gd["traceback"], package_dir=Path(gd["package_dir"]) if gd["package_dir"] else root / name)
            fl = sorted(feats | {"plugins." + label})
            if not gen.ok:
                if not plist:
                    return CaseResult("inconclusive", note="unplugged generation failed (%s) - C04's concern" % gen.exc_type, stats={"generation_failed": 1})
                violations.append(Violation(PROP, "generates-with-plugins", "[%s] generation failed: %s: %s\n%s" % (label, gen.exc_type, str(gen.exception)[:300], gen.traceback[-600:]),
                                            fl, replay_case, mech="c15:generates:%s:%s" % (label, gen.exc_type)))
                continue
            try:
                pkg = import_package(root, name)
                errs = cw.import_all_modules(pkg, gen.package_dir)
            except BaseException as e:  # noqa: BLE001
                errs = [("package", "%s: %s" % (type(e).__name__, str(e)[:300]))]
            if errs:
                mech = "c15:loads:%s" % label
                if FR in plist and any("typing" in e[1] or "attempted relative import beyond" in e[1] or "No module named" in e[1] for e in errs):
                    mech = "forward-refs-relative-import-level"
                violations.append(Violation(PROP, "loads-with-plugins", "[%s] %r" % (label, errs[:2]), fl, replay_case, mech=mech))
                continue
            count("packages")
            try:
                obs = drive(pkg, cfg, schema_ref, authored, names, case)
            except BaseException as e:  # noqa: BLE001
                import traceback
                violations.append(Violation(PROP, "drives-with-plugins", "[%s] %s: %s\n%s" % (label, type(e).__name__, str(e)[:300], traceback.format_exc()[-600:]), fl, replay_case,
                                            mech="c15:drive:%s:%s" % (label, type(e).__name__)))
                continue
            results[label] = {"plist": plist, "obs": obs, "dir": gen.package_dir, "pkg": pkg, "cfg": cfg, "hints": method_hints(pkg, cfg)}
        base = results.get("none")
        if base is None:
            return CaseResult("inconclusive", note="unplugged package unusable", stats=stats)
        # ---- the target already holds the package of ANOTHER configuration (the unplugged one, generated a moment ago): generating one of the plugin lists over it
        # must leave exactly what a fresh generation of that list leaves (a plugin that empties, moves or renames something cannot keep what was there before)
        plugged = [l_ for l_ in lists[1:] if ("+".join(SHORT[p] for p in l_) or "none") in results]
        if plugged:
            import hashlib
            plist = plugged[case["idx"] % len(plugged)]
            label = "+".join(SHORT[p] for p in plist)
            digests = {}
            for where, history in (("over", [[], plist]), ("fresh", [plist])):
                sub = root / ("hist_" + where)
                sub.mkdir()
                ok_ = True
                for pl_ in history:
                    cfg_h = dict(cfg_full, plugins=pl_, target_package_name="plg_hist", include_comments="stable")
                    if case.get("eo_module") and EO in pl_:
                        cfg_h["extract-operations"] = {"operations_module_name": case["eo_module"]}
                    cfg_hw = write_case(sub, sdl, queries, cfg_h, extra_files=extra_files or None, section_style=case.get("section_style", "tool"))
                    gd_h = generate_in_subprocess(sub, "client", cfg_hw)
                    ok_ = ok_ and gd_h["ok"]
                if ok_:
                    digests[where] = {str(p_.relative_to(sub / "plg_hist")): hashlib.sha256(p_.read_bytes()).hexdigest() for p_ in sorted((sub / "plg_hist").rglob("*")) if p_.is_file() and "__pycache__" not in p_.parts}
            if len(digests) == 2:
                count("generations_over_another_configuration")
                if digests["over"] != digests["fresh"]:
                    differing = sorted(f for f in set(digests["over"]) | set(digests["fresh"]) if digests["over"].get(f) != digests["fresh"].get(f))
                    violations.append(Violation(PROP, "plugins-over-existing-package", "[%s] generated over the unplugged package of the same inputs, the target differs from a fresh generation in %r "
                                                "(only in the old target: %r)" % (label, differing[:6], sorted(set(digests["over"]) - set(digests["fresh"]))[:6]),
                                                sorted(feats | {"plugins." + label}), replay_case, mech="c15:over-existing:" + label))
        for label, res in results.items():
            if label == "none":
                continue
            plist = res["plist"]
            fl = sorted(feats | {"plugins." + label})
            shorter = SR in plist
            plist_norm = [FR if p_ == FR_MODULE else p_ for p_ in plist]
            marker_ops = MA in plist or MB in plist or MS in plist
            for key, b in base["obs"].items():
                o = res["obs"].get(key)
                count("call_comparisons")
                if not isinstance(b, dict) or not isinstance(o, dict):
                    if b != o:
                        violations.append(Violation(PROP, "same-calls", "[%s] %s: %r vs unplugged %r" % (label, key, o, b), fl, replay_case, mech="c15:same-calls:" + label))
                    continue
                sb, so = [canon(x) for x in b["sent"]], [canon(x) for x in o["sent"]]
                if so != sb:
                    violations.append(Violation(PROP, "same-request", "[%s] %s: request differs from the unplugged one\n plugged:   %s\n unplugged: %s" % (
                        label, key, json.dumps(so)[:500], json.dumps(sb)[:500]), fl, replay_case, mech="c15:same-request:" + label))
                if o["status"] != b["status"]:
                    violations.append(Violation(PROP, "same-acceptance", "[%s] %s: %s (%s) vs unplugged %s" % (label, key, o["status"], o["value"] if o["status"] != "ok" else "", b["status"]),
                                                fl, replay_case, mech="c15:same-acceptance:" + label))
                    continue
                if b["status"] != "ok":
                    continue
                if not shorter:
                    if o["value"] != b["value"]:
                        violations.append(Violation(PROP, "same-value", "[%s] %s: returned value differs" % (label, key), fl, replay_case, mech="c15:same-value:" + label))
                else:
                    bv = b["value"]
                    one = bv[0] if isinstance(bv, list) and len(bv) == 1 else bv
                    ov = o["value"][0] if isinstance(o["value"], list) and len(o["value"]) == 1 and isinstance(bv, list) else o["value"]
                    fields = one.get("__model__") if isinstance(one, dict) else None
                    if fields is not None and len(fields) == 1:
                        count("shorter_unwrapped")
                        want = next(iter(fields.values()))
                        if ov != want:
                            mech = "c15:shorter-single:" + label
                            if FR in plist_norm and plist_norm.index(FR) < plist_norm.index(SR) and ov == one:
                                mech = "shorter-results-no-effect-after-forward-refs"
                            elif ov == one and root_fragment_overlap(authored, key.split("/")[0]):
                                mech = "shorter-results-counts-root-fragment-field-twice"
                            violations.append(Violation(PROP, "shorter-results-single-field", "[%s] %s: returned %s, the single top-level field of the unplugged result is %s" % (
                                label, key, json.dumps(ov)[:300], json.dumps(want)[:300]), fl, replay_case, mech=mech))
                    else:
                        count("shorter_unchanged")
                        if ov != one:
                            violations.append(Violation(PROP, "shorter-results-many-fields", "[%s] %s: several top-level fields but the return value changed" % (label, key), fl, replay_case,
                                                        mech="c15:shorter-many:" + label))
            # plugin-specific observations
            if EO in plist:
                opm = sys.modules.get(res["pkg"].__name__ + "." + (case.get("eo_module") or "operations"))
                count("extract_operations_checks")
                if opm is None:
                    violations.append(Violation(PROP, "extract-operations-module", "[%s] no operations module" % label, fl, replay_case, mech="c15:extract-module:" + label))
                else:
                    consts = {canon({"query": v})["query"] for k, v in vars(opm).items() if isinstance(v, str) and not k.startswith("__")}
                    sent = set()
                    for b in base["obs"].values():
                        if isinstance(b, dict):
                            for s in b["sent"]:
                                sent.add(canon(s)["query"])
                    if not sent <= consts:
                        violations.append(Violation(PROP, "extract-operations-identical", "[%s] operation strings sent by the unplugged client are not all constants of the operations module (missing %d)" % (
                            label, len(sent - consts)), fl, replay_case, mech="c15:extract-identical:" + label))
            if FR in plist_norm:
                # the deferred imports live under `if TYPE_CHECKING:`; nothing executes them at run time, so each is resolved here the way a type checker would
                for pyf in sorted(res["dir"].glob("*.py")):
                    try:
                        tree_ = ast.parse(pyf.read_text())
                    except SyntaxError:
                        continue
                    for node_ in ast.walk(tree_):
                        if isinstance(node_, ast.If) and isinstance(node_.test, ast.Name) and node_.test.id == "TYPE_CHECKING":
                            for imp in node_.body:
                                if isinstance(imp, ast.ImportFrom):
                                    count("deferred_imports_resolved")
                                    try:
                                        import importlib
                                        m_ = importlib.import_module("." * imp.level + (imp.module or ""), package=res["pkg"].__name__)
                                        for al in imp.names:
                                            getattr(m_, al.name)
                                    except BaseException as e_:  # noqa: BLE001
                                        violations.append(Violation(PROP, "forward-refs-deferred-imports-resolve", "[%s] %s: `from %s%s import %s` under TYPE_CHECKING does not resolve: %s: %s" % (
                                            label, pyf.name, "." * imp.level, imp.module or "", ", ".join(a.name for a in imp.names), type(e_).__name__, str(e_)[:200]), fl, replay_case,
                                            mech="c15:forward-refs-deferred-import:" + label))
            if FR in plist_norm and not shorter:
                count("forward_ref_hint_checks")
                if res["hints"] != base["hints"]:
                    diff = {k: (res["hints"].get(k), base["hints"].get(k)) for k in set(res["hints"]) | set(base["hints"]) if res["hints"].get(k) != base["hints"].get(k)}
                    violations.append(Violation(PROP, "forward-refs-same-annotations", "[%s] %s" % (label, json.dumps(diff, default=str)[:600]), fl, replay_case, mech="c15:forward-refs-hints:" + label))
            if NR in plist:
                count("no_reimports_checks")
                init = (res["dir"] / "__init__.py").read_text()
                body = [n for n in ast.parse(init).body if not isinstance(n, ast.Expr)]
                if body and not marker_ops:
                    violations.append(Violation(PROP, "no-reimports-empties-init", "[%s] __init__ still has statements: %s" % (label, init[:200]), fl, replay_case, mech="c15:no-reimports:" + label))
            twin_label = "+".join(SHORT[FR if p_ == FR_MODULE else p_] for p_ in plist)
            if FR_MODULE in plist and twin_label in results:
                other = results[twin_label]
                count("module_path_spelling_checks")
                for f in sorted(p.name for p in other["dir"].glob("*.py")):
                    a = (other["dir"] / f).read_bytes().replace(other["dir"].name.encode(), b"PKG")
                    p2 = res["dir"] / f
                    bb = p2.read_bytes().replace(res["dir"].name.encode(), b"PKG") if p2.is_file() else b"<missing>"
                    if a != bb:
                        violations.append(Violation(PROP, "plugins-in-configuration-order", "[%s] %s differs from the package generated with the class-path spelling of the same list" % (label, f),
                                                    fl, replay_case, mech="c15:module-path-order"))
                        break
            if plist == [ID]:
                count("identity_checks")
                for f in sorted(p.name for p in base["dir"].glob("*")):
                    a = (base["dir"] / f).read_bytes().replace(base["dir"].name.encode(), b"PKG") if (base["dir"] / f).is_file() else b""
                    p2 = res["dir"] / f
                    bb = p2.read_bytes().replace(res["dir"].name.encode(), b"PKG") if p2.is_file() else b"<missing>"
                    if a != bb:
                        violations.append(Violation(PROP, "identity-plugin-changes-nothing", "[%s] %s differs" % (label, f), fl, replay_case, mech="c15:identity"))
                if sorted(p.name for p in base["dir"].glob("*.py")) != sorted(p.name for p in res["dir"].glob("*.py")):
                    violations.append(Violation(PROP, "identity-plugin-changes-nothing", "[%s] file set differs" % label, fl, replay_case, mech="c15:identity-files"))
            if plist in ([MS, MA], [MA, MS]):
                # a hook result that is falsy (an empty comment) is still the value the next plugin receives
                wantc = ["# comment-marker:A"] if plist == [MS, MA] else []
                for p2 in sorted(res["dir"].glob("*.py")):
                    lines = p2.read_text().splitlines()
                    gotc = [l for l in lines if l.startswith("# comment-marker:")]
                    header = [l for l in lines[:3] if l.startswith("# Generated by")]
                    count("falsy_hook_result_checks")
                    if gotc != wantc or header:
                        violations.append(Violation(PROP, "hooks-in-configuration-order", "[%s] %s: comment markers %r (want %r), generated-by header %r (want none: the first plugin returned an empty comment)" % (
                            label, p2.name, gotc, wantc, header), fl, replay_case, mech="c15:order:falsy-hook-result"))
            if plist in ([MA, MB], [MB, MA]):
                want = ["# marker:%s" % SHORT[p][-1] for p in plist]
                wantc = ["# comment-marker:%s" % SHORT[p][-1] for p in plist]
                no_code_hook = {res["cfg"].get("fragments_module_name", "fragments") + ".py", "custom_fields.py", "custom_typing_fields.py", "custom_queries.py", "custom_mutations.py"}
                for p2 in sorted(res["dir"].glob("*.py")):
                    if p2.name in no_code_hook:
                        continue  # no *_code hook exists for these files (the comment hook is checked through the others)
                    lines = p2.read_text().splitlines()
                    got = [l for l in lines if l.startswith("# marker:")]
                    gotc = [l for l in lines if l.startswith("# comment-marker:")]
                    count("marker_order_checks")
                    if got != want or gotc != wantc:
                        violations.append(Violation(PROP, "hooks-in-configuration-order", "[%s] %s: code markers %r (want %r), comment markers %r (want %r)" % (
                            label, p2.name, got, want, gotc, wantc), fl, replay_case, mech="c15:order:" + p2.name if p2.name in ("__init__.py", "client.py", "enums.py", "input_types.py") else "c15:order:other"))
                # operation string hook order observed on the wire
                for o in res["obs"].values():
                    if isinstance(o, dict):
                        for s in o["sent"]:
                            om = [l.strip() for l in (s.get("query") or "").splitlines() if "# op-marker" in l]
                            if om != ["# op-marker:%s" % SHORT[p][-1] for p in plist]:
                                violations.append(Violation(PROP, "hooks-in-configuration-order", "[%s] operation markers %r" % (label, om), fl, replay_case, mech="c15:order:operation-str"))
                            count("marker_order_checks")
    sample = None
    if case["idx"] < 2:
        sample = {"plugin_lists": [[SHORT[p] for p in l] for l in lists], "operations": [o[:200] for o in ops]}
    feats.update("plugins." + l for l in results)
    return CaseResult("violated" if violations else "held", [v.to_json() for v in violations], stats, {"features": sorted(feats), "plugin_lists": sorted(results)}, sample=sample)


def run(tier: str, seed: int) -> int:
    r = core.Run(PROP, tier, seed)
    r.rule = ("seeded inputs (1 or many top-level fields, unions, fragments, subscriptions, arguments) generated unplugged and with plugin lists drawn from: all 15 non-empty "
              "subsets of the four bundled plugins, both orders of every pair, the reversed full list, an identity plugin, two marker plugins in both orders; every package is "
              "loaded and driven with identical calls (3 worlds per operation); distinct = distinct feature-set incl. plugin lists")
    r.assumptions = ["graphql-core reference server", "marker/identity plugins shipped by the harness are ordinary third-party plugins"]
    r.floors = {"packages": 80, "call_comparisons": 300, "shorter_unwrapped": 10, "extract_operations_checks": 8, "forward_ref_hint_checks": 4, "no_reimports_checks": 8,
                "identity_checks": 4, "marker_order_checks": 30}
    n = 300 if tier == "thorough" else 44
    all_lists = plugin_lists()
    per_case = 6 if tier == "thorough" else 4
    cases = []
    for i in range(n):
        c = cw.make_case(seed, i, tier=tier, n_ops=3)
        pl = [all_lists[(i * per_case + k) % len(all_lists)] for k in range(per_case)]
        pl.append([ID] if i % 2 == 0 else ([MA, MB] if i % 4 == 1 else [MB, MA]))
        if i % 4 == 2:
            pl.append([MS, MA] if i % 8 == 2 else [MA, MS])
        if i % 3 == 0:
            # the same list spelled with a class path and with a module path must give byte-identical packages
            # (module path first, class path second is the order in which a two-pass resolution of the list would go wrong)
            twin = [[SR, FR], [FR, SR], [FR, EO], [NR, FR, SR]][(i // 3) % 4]
            pl.append(twin)
            pl.append([FR_MODULE if p_ == FR else p_ for p_ in twin])
        c["plugin_lists"] = pl
        if i % 4 == 1:
            c["section_style"] = "plain"  # the deprecated top-level [ariadne-codegen] table: plugins read their settings from the same place as the generator
        if i % 6 == 4:
            c["eo_module"] = ["gql_docs", "operations_py", "Documents"][(i // 6) % 3]
        if i % 3 == 2:
            c["scalars"] = True
            c["dirty"] = sorted(set(c.get("dirty", [])) | {"schema.force_scalar"})
        if i % 5 == 3:
            # plugins meet the extra client methods and modules of the operation builder
            c["cfg"] = dict(c["cfg"], enable_custom_operations=True)
        if i % 3 == 1:
            cw.with_mixins(c, 1)  # @mixin on fields and fragment definitions: the codegen-only directive must not reach any plugin's copy of the operation strings
        cases.append(c)
    # the harness's own corpus of order-dependent shapes (root-type fragments shared by several operations, fragments used in part, ...), in every definition order
    for k, cc in enumerate(c_ for c_ in cw.corpus_cases("C15", tier) if str(c_.get("corpus", "")).split("/")[0] in ("order_shapes",)):
        cc = dict(cc, n_ops=3)
        cc["plugin_lists"] = [[SR], [EO], [SR, EO, NR] if k % 2 else [FR, SR], [ID]]
        cases.append(cc)

    def on_result(case, res):
        r.add(case, res)
        if res.status != "inconclusive":
            r.mark_distinct(tuple(sorted(res.sets.get("features", []))))

    core.run_forked(cases, worker, timeout_s=300, on_result=on_result)
    return r.finish()


def replay(data) -> int:
    case = dict(data["case"])
    res = core.run_forked([case], worker)[0]
    print("status:", res.status, res.note)
    for v in res.violations:
        print("-", v["clause"], "[", v["mech"], "] ::", v["detail"][:1500])
    return 1 if res.violations else 0
