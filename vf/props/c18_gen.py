"""C18 parts B and C (generation level)."""
from __future__ import annotations

import json
import random
import sys
import warnings
from typing import Any, Dict, List

from .. import core, oracles
from ..core import CaseResult, Violation
from . import _clientworld as cw

PROP = "C18"
DIRTY_CLASSES = ["names.keyword", "names.soft_keyword", "names.pydantic_attr", "names.leading_underscore", "names.builtin", "names.method_locals",
                 "names.underscore_digit", "names.dunder_like", "enum.keyword_value", "enum.reserved_value", "enum.lowercase_value"]


def refine_mechanism(cls: str, v: Dict[str, Any]) -> str:
    """Known findings are keyed by the specific trigger visible in the witness, not by the dirty class alone."""
    import re
    d = v["detail"]
    if re.search(r"duplicate argument '(self|kwargs)'", d):
        return "variable-named-self-or-kwargs"
    if ("invalid enum member name" in d or "member order does not match _order_" in d or re.search(r"input_value='(_ignore_|_order_|_missing_|_generate_next_value_|mro)'", d)
            or re.search(r"has no attribute '(_ignore_|_order_|_missing_|_generate_next_value_)'", d)):  # the value never became a member, so a default naming it cannot resolve
        return "enum-value-reserved-by-python-enum"
    m_line = re.search(r"Cannot parse: \d+:\d+\n([^\n]*)", d)  # black quotes the line it could not parse
    digit_led = bool(m_line and re.search(r"(?<![\w.'\"\[])\d\w*\s*(:|=[^=])", m_line.group(1)))  # a name position (parameter, annotated target) holding a token that starts with a digit
    if cls == "names.underscore_digit" and (re.search(r"Cannot parse.*\n\s+[0-9]", d, re.S) or digit_led or "illegal target for annotation" in d or "invalid decimal literal" in d):
        return "name-leading-underscore-then-digit"  # the generated module is not Python because a name starts with a digit
    case_text = str((v.get("case") or {}).get("_queries", "")) + str((v.get("case") or {}).get("_sdl", ""))
    if cls == "names.dunder_like" and ("typename__" in d or "__typename" in d) and re.search(r"\btypename__\b\s*[:(]", case_text):  # the input really uses the literal name typename__ and the witness is about it
        return "user-name-equals-typename-alias"
    if cls == "names.builtin" and ("none_required" in d or "Input should be None" in d) and re.search(r"^\s*(str|int|float|bool)\b\s*[:(]", case_text, re.M):
        return "field-named-str-shadows-builtin-in-annotations"
    return "gen:%s:%s:%s" % (cls, v["property"], v["clause"])


def worker_b(case: Dict[str, Any]) -> CaseResult:
    """One dirty name class per case; the real process_name runs under the in-situ contracts; the package is loaded and driven."""
    from . import c18

    record: Dict[str, Any] = {}
    import ariadne_codegen.client_generators.package  # noqa: F401
    import ariadne_codegen.client_generators.custom_operation  # noqa: F401
    import ariadne_codegen.contrib.extract_operations  # noqa: F401
    c18.install_contracts(record)
    res = cw.worker(case)
    cls = case["dirty"][0] if case.get("dirty") else "clean"
    out = []
    for v in res.violations:
        v = dict(v)
        v["mech"] = refine_mechanism(cls, v)
        v["clause"] = "generated-package-%s-%s" % (v["property"], v["clause"])
        v["property"] = PROP
        out.append(v)
    for clause, name, result, sn, trim, pyd in record.get("bad", []):
        mech = c18.known_mechanism(name, sn, trim, clause) or "c18:insitu:%s" % clause
        out.append(Violation(PROP, "in-situ-law-" + clause, "during generation: process_name(%r, snake=%s, trim=%s, pydantic=%s) -> %r" % (name, sn, trim, pyd, result),
                             res.sets.get("features", []), case, mech=mech).to_json())
    res.violations = out
    res.stats["b.insitu_contract_evaluations"] = record.get("evals", 0)
    res.stats["b.cases"] = 1
    if out and res.status == "held":
        res.status = "violated"
    return res


def worker_b_inputs(case: Dict[str, Any]) -> CaseResult:
    """Dirty name classes in *input fields*: the C06 machinery (construction by GraphQL name / Python name, wire names, server-seen values) under the in-situ contracts."""
    from . import c06, c18

    record: Dict[str, Any] = {}
    import ariadne_codegen.client_generators.package  # noqa: F401
    import ariadne_codegen.client_generators.custom_operation  # noqa: F401
    import ariadne_codegen.contrib.extract_operations  # noqa: F401
    c18.install_contracts(record)
    res = c06.worker(case)
    cls = case["dirty"][0]
    out = []
    for v in res.violations:
        v = dict(v)
        if v.get("mech") == "default-id-int-literal":
            continue  # C06's own listed finding, not a naming matter
        v["property_orig"] = v["property"]
        v["mech"] = refine_mechanism(cls, v)
        v["clause"] = "generated-inputs-%s" % v["clause"]
        v["property"] = PROP
        out.append(v)
    for clause, name, result, sn, trim, pyd in record.get("bad", []):
        mech = c18.known_mechanism(name, sn, trim, clause) or "c18:insitu:%s" % clause
        out.append(Violation(PROP, "in-situ-law-" + clause, "during generation: process_name(%r, snake=%s, trim=%s, pydantic=%s) -> %r" % (name, sn, trim, pyd, result),
                             res.sets.get("features", []), case, mech=mech).to_json())
    res.violations = out
    res.stats = {"b.input_cases": 1, "b.insitu_contract_evaluations": record.get("evals", 0), "b.input_constructions": res.stats.get("constructions", 0)}
    res.status = "violated" if out else ("held" if res.status != "inconclusive" else "inconclusive")
    return res


# ---- part C: colliding pairs ---------------------------------------------------------------------

SHADOWING_NAMES = ["Field", "Optional", "List", "Any", "Union", "Literal", "Annotated", "BaseModel", "PairEnum"]
PAIRS_SNAKE = [("userId", "user_id"), ("userID", "userId"), ("a1", "a_1"), ("URLValue", "urlValue"), ("fooBar", "foo_bar"), ("x", "X"), ("class", "class_"), ("_x", "x"), ("copy", "copy_")]
PAIRS_NOSNAKE = [("class", "class_"), ("_x", "x"), ("copy", "copy_"), ("__a", "a"), ("from", "from_")]

SCHEMA_C = '''
type Query {{ holder: Holder take(inp: PairInput, {a}: Int, {b}: Int): Int echo(e: PairEnum): PairEnum }}
type Holder {{ one: Int two: Int {a}: Int {b}: Int }}
input PairInput {{ {a}: Int {b}: Int pickOne: PairEnum = {ea} pickMany: [PairEnum!] = [{eb}, {ea}] }}
enum PairEnum {{ {ea} {eb} KEEP }}
'''


def worker_c(case: Dict[str, Any]) -> CaseResult:
    from graphql import build_schema, parse, validate, validate_schema

    from ..genpkg import RefServer, call_method, find_methods, import_package, make_client, probe_param_map, run_cli, write_case
    from ..world import World

    a, b = case["pair"]
    scope = case["scope"]
    snake = case["snake"]
    stats: Dict[str, Any] = {"c.cases": 1}
    violations: List[Violation] = []
    feats = ["pair.scope." + scope, "config.snake_on" if snake else "config.snake_off"]
    ea, eb = (a, b) if scope == "enum_values" else ("EA", "EB")
    fa, fb = (a, b) if scope in ("input_fields", "object_fields", "arguments") else ("fa", "fb")
    sdl = SCHEMA_C.format(a=fa, b=fb, ea=ea, eb=eb)
    if scope == "response_keys":
        queries = "query Pair { holder { %s: one %s: two } }" % (a, b)
    elif scope == "object_fields":
        queries = "query Pair { holder { %s %s } }" % (a, b)
    elif scope == "variables":
        queries = "query Pair($%s: Int, $%s: Int) { take(fa: $%s, fb: $%s) }" % (a, b, a, b)
    elif scope == "input_fields":
        queries = "query Pair($inp: PairInput) { take(inp: $inp) }"
    elif scope == "operations":
        queries = "query %s { holder { one } }\nquery %s { holder { two } }" % (a, b)
    elif scope == "enum_values":
        queries = "query Pair($e: PairEnum) { echo(e: $e) }"
    else:
        raise KeyError(scope)
    try:
        schema_ref = build_schema(sdl)
        if validate_schema(schema_ref) or validate(schema_ref, parse(queries)):
            return CaseResult("inconclusive", note="pair %r not usable in scope %s (invalid GraphQL)" % ((a, b), scope), stats={"c.invalid": 1})
    except Exception as e:  # noqa: BLE001
        return CaseResult("inconclusive", note="pair %r not usable in scope %s: %s" % ((a, b), scope, str(e)[:100]), stats={"c.invalid": 1})
    replay_case = dict(case)
    with core.Scratch() as root:
        cfg = write_case(root, sdl, queries, dict({"convert_to_snake_case": snake}, **({"plugins": ["vf_plugins.DropQuerySuffix"]} if case.get("name_plugin") else {})))
        if case.get("name_plugin"):
            feats.append("plugin.process_name_hook")
        with warnings.catch_warnings():
            warnings.simplefilter("ignore")
            gen = run_cli(root, "client", cfg)
        if not gen.ok:
            stats["c.generation_refused"] = 1
            stats["c.generation_refused_typed" if gen.exc_is_codegen else "c.generation_refused_untyped"] = 1
            return CaseResult("held", [], stats, {"features": feats, "outcomes": ["%s:%s" % (scope, "typed-error" if gen.exc_is_codegen else "untyped-error:" + gen.exc_type)]})
        stats["c.generated"] = 1

        def bad(clause, detail):
            # a "single" case pairs the name under test with an unrelated partner: nothing can be merged, so a failure is never the listed pair finding
            import re as _re
            if case.get("single") and not snake and a in SHADOWING_NAMES and scope in ("input_fields", "object_fields", "response_keys"):
                # the attribute takes the name of a helper that later lines of the same class body use (listed mechanism, same as a field named str)
                violations.append(Violation(PROP, "single-" + clause, "scope %s, name %r, snake=%s: %s" % (scope, a, snake, detail), feats, replay_case,
                                            mech="field-named-str-shadows-builtin-in-annotations"))
                return
            if case.get("single") and _re.search(r"duplicate argument '(self|kwargs)'", detail):
                violations.append(Violation(PROP, "single-" + clause, "scope %s, name %r, snake=%s: %s" % (scope, a, snake, detail), feats, replay_case,
                                            mech="variable-named-self-or-kwargs"))
                return
            # the listed pair findings are keyed by scope AND symptom (what the unchanged tree does with such a pair); a pair that goes wrong in any
            # other way is a new violation, not the listed one
            known_symptom = {"enum_values": "already defined as", "input_fields": "input model wire names", "object_fields": "is carried by 0 fields",
                             "response_keys": "is carried by 0 fields", "variables": "duplicate argument"}.get(scope)
            is_listed = (not case.get("single")) and known_symptom is not None and known_symptom in detail
            violations.append(Violation(PROP, ("single-" if case.get("single") else "pair-") + clause, "scope %s, names %r/%r, snake=%s: %s" % (scope, a, b, snake, detail),
                                        feats, replay_case, mech=("c18:single-name:%s" % scope) if case.get("single") else (("pair-merged:%s" % scope) if is_listed else ("c18:pair-other-symptom:%s" % scope))))

        try:
            pkg = import_package(root, "graphql_client")
            errs = cw.import_all_modules(pkg, gen.package_dir)
        except BaseException as e:  # noqa: BLE001
            errs = [("package", "%s: %s" % (type(e).__name__, str(e)[:200]))]
        if errs:
            bad("usable", "generation succeeded but the package does not load: %r" % errs[:2])
            return CaseResult("violated", [v.to_json() for v in violations], stats, {"features": feats})
        server = RefServer(schema_ref)
        client, is_async = make_client(pkg, cfg, server)
        if scope == "operations":
            methods = find_methods(pkg, cfg, [a, b])
            if len(set(methods.values())) != 2:
                bad("both-usable", "operations %r map to methods %r" % ((a, b), methods))
            else:
                for op, key in ((a, "one"), (b, "two")):
                    server.world = World(schema_ref, 1)
                    status, value = call_method(client, is_async, methods[op], {})
                    body = server.captured[-1] if server.captured else {}
                    if status != "ok" or body.get("operationName") != op:
                        bad("both-usable", "method for %s sent operationName %r (%s)" % (op, body.get("operationName"), status))
            files = sorted(p.name for p in gen.package_dir.glob("*.py"))
            stats["c.checked"] = 1
            return CaseResult("violated" if violations else "held", [v.to_json() for v in violations], stats, {"features": feats, "outcomes": [scope + ":both-usable"]})
        methods = find_methods(pkg, cfg, ["Pair"])
        mname = methods.get("Pair")
        if mname is None:
            bad("usable", "no method for the operation")
            return CaseResult("violated", [v.to_json() for v in violations], stats, {"features": feats})
        if scope in ("response_keys", "object_fields"):
            world = World(schema_ref, 1)
            server.world = world
            status, value = call_method(client, is_async, mname, {})
            data = (server.responses[-1] or {}).get("data") if server.responses else None
            if status != "ok":
                bad("both-usable", "conformant response rejected: %s" % str(value)[:200])
            else:
                out: List[Any] = []
                oracles.walk(value, data, (), world.types, out, {}, schema_ref)
                for clause, detail in out[:2]:
                    bad("both-usable", "%s: %s" % (clause, detail))
        elif scope == "variables":
            pmap = probe_param_map(client, is_async, mname, server, False)
            if set(pmap) != {a, b} or len(set(pmap.values())) != 2:
                bad("both-usable", "variables %r reach the wire through parameters %r" % ((a, b), pmap))
            else:
                server.world = World(schema_ref, 1)
                call_method(client, is_async, mname, {pmap[a]: 11, pmap[b]: 22})
                sent = server.captured[-1].get("variables")
                if sent != {a: 11, b: 22}:
                    bad("both-usable", "sent variables %r" % (sent,))
        elif scope == "input_fields":
            mod = sys.modules["graphql_client.input_types"]
            cls = mod.PairInput
            wm = {(fi.alias or n): n for n, fi in cls.model_fields.items()}
            if not {a, b} <= set(wm) or len(wm) != 4:
                bad("both-usable", "input model wire names %r" % (sorted(wm),))
            else:
                inst = cls.model_validate({a: 1, b: 2})
                if inst.model_dump(by_alias=True, exclude_unset=True) != {a: 1, b: 2}:
                    bad("both-usable", "dump %r" % inst.model_dump(by_alias=True, exclude_unset=True))
                for only in (a, b):  # a value given under one name must not also fill the other
                    got_ = cls.model_validate({only: 5}).model_dump(by_alias=True, exclude_unset=True)
                    if got_ != {only: 5}:
                        bad("both-usable", "built from {%r: 5} the model dumps %r" % (only, got_))
        elif scope == "enum_values":
            mod = sys.modules["graphql_client.enums"]
            members = {m.value: m.name for m in mod.PairEnum}
            if not {a, b} <= set(members):
                bad("both-usable", "enum members %r" % (members,))
            else:
                # the same values named as input defaults must read back as those members
                inst = sys.modules["graphql_client.input_types"].PairInput()
                got = (getattr(inst, "pick_one", None) if snake else getattr(inst, "pickOne", None), list(getattr(inst, "pick_many", None) or getattr(inst, "pickMany", None) or []))
                if getattr(got[0], "value", got[0]) != a or [getattr(x, "value", x) for x in got[1]] != [b, a]:
                    bad("both-usable", "enum values used as input defaults read back as %r" % (got,))
        stats["c.checked"] = 1
    return CaseResult("violated" if violations else "held", [v.to_json() for v in violations], stats, {"features": feats, "outcomes": [scope + ":both-usable"]})


def parts_b_c(r: core.Run, tier: str, seed: int) -> None:
    n_b = 40 if tier == "thorough" else 5
    cases = []
    i = 0
    for cls in DIRTY_CLASSES:
        for k in range(n_b):
            c = cw.make_case(seed, 1000 + i, dirty=[cls], props=["C01", "C04"], tier="quick")
            cases.append(c)
            i += 1

    def on_b(case, res):
        r.add(case, res)
        if res.status != "inconclusive":
            r.mark_distinct(("B",) + tuple(sorted(res.sets.get("features", []))))

    core.run_forked(cases, worker_b, timeout_s=180, on_result=on_b)
    icases = []
    for cls in ("names.keyword", "names.soft_keyword", "names.pydantic_attr", "names.leading_underscore", "names.builtin", "names.dunder_like"):
        for k in range(n_b):
            icases.append(cw.make_case(seed, 2000 + i, dirty=[cls], tier="quick"))
            i += 1
    core.run_forked(icases, worker_b_inputs, timeout_s=180, on_result=on_b)
    ccases = []
    for snake, pairs in ((True, PAIRS_SNAKE), (False, PAIRS_NOSNAKE)):
        for pair in pairs:
            for scope in ("response_keys", "object_fields", "variables", "input_fields", "operations", "enum_values"):
                ccases.append({"pair": list(pair), "scope": scope, "snake": snake, "kind": "pair"})

    # two variables that stay different names after the mapping, one of which is what a method local is renamed to when the other takes its name
    for pair in (("query", "_query"), ("variables", "_variables"), ("response", "_response"), ("data", "_data"), ("_query", "query"), ("_data", "data")):
        ccases.append({"pair": list(pair), "scope": "variables", "snake": False, "kind": "pair", "local_rename": True})

    # two operations whose names meet only after a naming plugin's process_name hook ran: still "two distinct names of one scope"
    for snake in (True, False):
        for pair in (("getUser", "getUserQuery"), ("listItemsQuery", "listItems"), ("get_user_query", "get_user")):
            ccases.append({"pair": list(pair), "scope": "operations", "snake": snake, "kind": "pair", "name_plugin": True})

    # single names in each scope, next to an unrelated partner: the wire name must stay, the value must arrive (names that meet a method local or a
    # reserved word only after the mapping are the interesting ones)
    singles = ["Query", "QUERY", "_query", "query_", "Variables", "_variables", "Data", "DATA", "Response", "response_", "operationName", "OperationName",
               "query", "variables", "data", "response", "operation_name", "Self", "Kwargs", "Class", "From", "_from", "Json", "Copy", "modelDump", "Id", "ID"]
    for snake in (True, False):
        for nm in singles:
            for scope in ("variables", "response_keys", "input_fields", "object_fields"):
                ccases.append({"pair": [nm, "zzPartner"], "scope": scope, "snake": snake, "kind": "pair", "single": True})

    for nm in SHADOWING_NAMES:
        for scope in ("input_fields", "object_fields", "response_keys"):
            for snake in (True, False):
                ccases.append({"pair": [nm, "zzPartner"], "scope": scope, "snake": snake, "kind": "pair", "single": True})
    for snake in (True, False):
        for nm in ["match", "case", "type", "count", "title", "index", "class", "from", "None", "Self", "Query", "copy", "json", "lambda", "_x", "x_"]:
            ccases.append({"pair": [nm, "ZZ_PARTNER"], "scope": "enum_values", "snake": snake, "kind": "pair", "single": True})

    def on_c(case, res):
        r.add(case, res)
        r.mark_distinct(("C", tuple(case["pair"]), case["scope"], case["snake"]))
        if case.get("single"):
            r.count("c.single_name_cases")

    core.run_forked(ccases, worker_c, timeout_s=120, on_result=on_c)
    r.floors.update({"b.cases": 30, "b.input_cases": 20, "b.input_constructions": 200, "b.insitu_contract_evaluations": 2000, "c.cases": 50})


def replay(data) -> int:
    case = data["case"]
    if case.get("kind") == "pair":
        res = core.run_forked([case], worker_c)[0]
    else:
        case = dict(case)
        res = core.run_forked([case], worker_b)[0]
    print("status:", res.status, res.note)
    for v in res.violations:
        print("-", v["clause"], "[", v["mech"], "] ::", v["detail"][:1500])
    return 1 if res.violations else 0
