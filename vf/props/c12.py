"""C12 - every HTTP response is classified into exactly one documented outcome.

Observation point: the real `get_data` of the four bundled base clients (loaded from the
repository's dependency files exactly as generation ships them) on synthesised
httpx.Response objects, plus a generated client method fed the same responses through
httpx.MockTransport.  Oracle: a decision function transcribed from the property statement.
"""
from __future__ import annotations

import asyncio
import itertools
import json
import random
from typing import Any

import httpx

from .. import core
from ..deps import load_deps, make_tracer

PROP = "C12"

QUICK_STATUSES = [200, 201, 204, 226, 299, 300, 301, 302, 304, 307, 399, 400, 401, 403, 404, 418, 422, 429, 499, 500, 502, 503, 599]


def error_entries():
    base = {"message": "boom"}
    return [
        dict(base),
        {"message": "with locations", "locations": [{"line": 1, "column": 2}]},
        {"message": "with path", "path": ["a", 0, "b"]},
        {"message": "with extensions", "extensions": {"code": "X", "n": [1, {"k": None}]}},
        {"message": "all", "locations": [{"line": 3, "column": 4}, {"line": 5, "column": 6}], "path": ["x"],
         "extensions": {"code": "ALL"}},
        {"message": "extra keys", "foo": "bar", "extensions": None},
        {"message": ""},
        {"message": "unicode ☃ \"quoted\""},
        # still "a list of objects each carrying a message": the other members have whatever shape the server gave them, and are carried as they are
        {"message": "extensions is a string", "extensions": "INTERNAL_SERVER_ERROR"},
        {"message": "extensions is a list", "extensions": ["a", "b"], "path": "not-a-list"},
        {"message": "extensions is a number, locations a string", "extensions": 7, "locations": "3:4"},
        {"message": "empty members", "extensions": {}, "locations": [], "path": []},
    ]


def body_classes(rng: random.Random, thorough: bool):
    """(class label, raw bytes) pairs.  errors members are spec-shaped as the statement requires."""
    out = []
    for i, raw in enumerate([b"", b"not json", b"{", b"\xff\xfe\x00", b"<html>502</html>", b"{'data': 1}", b"NaN x"]):
        out.append(("non-json/%d" % i, raw))
    for i, v in enumerate([None, 0, 1.5, "str", True, [], [1], [{"data": {"a": 1}}], ["data"]]):
        out.append(("json-non-object/%d" % i, json.dumps(v).encode()))
    for i, v in enumerate([{}, {"foo": 1}, {"extensions": {}}, {"Data": {}}, {"error": []}]):
        out.append(("object-neither-key/%d" % i, json.dumps(v).encode()))
    datas = [{"a": 1}, {}, {"nested": {"l": [1, None, {"x": "y"}]}}, None, [], 0, "", "scalar", [1, 2]]
    # beyond example sizes: a tree a few hundred levels deep (a JSON-scalar field holding a document), a list of thousands, a long string
    deep: Any = {"leaf": 1}
    for _ in range(300):
        deep = {"child": deep, "l": [deep]} if _ % 50 == 49 else {"child": deep}
    datas += [{"tree": deep}, {"items": list(range(3000))}, {"text": "x" * 200000}]
    for i, d in enumerate(datas):
        out.append(("data-only/%d" % i, json.dumps({"data": d}).encode()))
        out.append(("data+extensions/%d" % i, json.dumps({"data": d, "extensions": {"t": 1}}).encode()))
        out.append(("data+errors-empty/%d" % i, json.dumps({"data": d, "errors": []}).encode()))
        out.append(("data+errors-null/%d" % i, json.dumps({"data": d, "errors": None}).encode()))
    out.append(("errors-empty-only", json.dumps({"errors": []}).encode()))
    out.append(("errors-null-only", json.dumps({"errors": None}).encode()))
    entries = error_entries()
    combos = [[e] for e in entries] + [entries[:2], entries[2:5], entries]
    # the same failure reported several times: entries that agree in message (and locations) and differ only in path / extensions, and exact repeats
    null_item = {"message": "Cannot return null for non-nullable field Item.name.", "locations": [{"line": 2, "column": 3}]}
    combos += [[dict(null_item, path=["items", k, "name"]) for k in (0, 2, 3)],
               [{"message": "upstream failed", "extensions": {"service": "a"}}, {"message": "upstream failed", "extensions": {"service": "b"}}],
               [dict(entries[0]), dict(entries[0])],
               [dict(entries[4]), dict(entries[4]), dict(entries[4], path=["y"])]]
    if thorough:
        for k in (2, 3):
            for c in itertools.islice(itertools.permutations(entries, k), 0, 60):
                combos.append(list(c))
    for i, errs in enumerate(combos):
        out.append(("errors-only/%d" % i, json.dumps({"errors": errs}).encode()))
        for j, d in enumerate(datas if thorough else datas[:5]):
            out.append(("errors+data/%d/%d" % (i, j), json.dumps({"errors": errs, "data": d}).encode()))
        out.append(("errors+data+extra/%d" % i, json.dumps({"errors": errs, "data": {"p": 1}, "extensions": {"z": 1}, "foo": 2}).encode()))
    return out


def expected(status: int, raw: bytes):
    """The decision function of the statement. Returns (kind, payload)."""
    if not (200 <= status <= 299):
        return ("http", status)
    try:
        body = json.loads(raw.decode("utf-8"))
    except (ValueError, UnicodeDecodeError):
        return ("invalid", None)
    if not isinstance(body, dict) or ("data" not in body and "errors" not in body):
        return ("invalid", None)
    if body.get("errors"):
        return ("multi", body)
    return ("data", body.get("data"))


def observe(client, deps, response):
    ex = deps.exceptions
    try:
        got = client.get_data(response)
    except ex.GraphQLClientHttpError as e:
        if type(e) is not ex.GraphQLClientHttpError:
            return ("other", repr(e))
        return ("http", e)
    except ex.GraphQLClientInvalidResponseError as e:
        if type(e) is not ex.GraphQLClientInvalidResponseError:
            return ("other", repr(e))
        return ("invalid", e)
    except ex.GraphQLClientGraphQLMultiError as e:
        if type(e) is not ex.GraphQLClientGraphQLMultiError:
            return ("other", repr(e))
        return ("multi", e)
    except BaseException as e:  # noqa: BLE001
        return ("other", "%s: %s" % (type(e).__name__, e))
    return ("data", got)


def compare(kind, payload, okind, obs, response, ex):
    """-> None or (clause, detail)"""
    if okind != kind:
        return ("outcome-class", "expected outcome %r, observed %r (%r)" % (kind, okind, obs if okind in ("other", "data") else str(obs)))
    if kind == "http":
        if obs.status_code != payload:
            return ("http-status", "status_code %r != %r" % (obs.status_code, payload))
        if obs.response is not response:
            return ("http-response", "exception does not carry the response")
    elif kind == "invalid":
        if obs.response is not response:
            return ("invalid-response", "exception does not carry the response")
    elif kind == "multi":
        errs = payload["errors"]
        if len(obs.errors) != len(errs):
            return ("multi-count", "%d errors carried, %d reported" % (len(obs.errors), len(errs)))
        for got, want in zip(obs.errors, errs):
            if type(got) is not ex.GraphQLClientGraphQLError:
                return ("multi-type", "entry type %r" % type(got))
            for attr, val in (("message", want["message"]), ("locations", want.get("locations")),
                              ("path", want.get("path")), ("extensions", want.get("extensions")), ("original", want)):
                if getattr(got, attr) != val:
                    return ("multi-" + attr, "error.%s=%r expected %r" % (attr, getattr(got, attr), val))
        if obs.data != payload.get("data"):
            return ("multi-data", "partial data %r expected %r" % (obs.data, payload.get("data")))
    elif kind == "data":
        if obs != payload or type(obs) is not type(payload):
            return ("data-unchanged", "returned %r expected %r" % (obs, payload))
    return None


def make_clients(deps):
    out = {}
    for name, cls in deps.clients.items():
        out[name] = cls(url="http://x/")
        if name.endswith("otel"):
            out[name + "+tracer"] = cls(url="http://x/", tracer=make_tracer())
    return out


def run_case(run, deps, clients, status, label, raw):
    ex = deps.exceptions
    kind, payload = expected(status, raw)
    outcomes = []
    for cname, client in clients.items():
        response = httpx.Response(status_code=status, content=raw, request=httpx.Request("POST", "http://x/"))
        okind, obs = observe(client, deps, response)
        outcomes.append(okind)
        bad = compare(kind, payload, okind, obs, response, ex)
        run.evaluations += 1
        run.count("outcome." + okind)
        run.count("client." + cname)
        if bad:
            run.add_violation(core.Violation(PROP, bad[0], "client=%s status=%d body=%r: %s" % (cname, status, raw[:300], bad[1]),
                                             features=["get_data", cname, label.split("/")[0]],
                                             case={"kind": "get_data", "client": cname, "status": status, "body": raw.decode("latin-1")},
                                             mech="get_data:" + bad[0]))
        else:
            run.held += 1
    if len(set(outcomes)) > 1:
        run.add_violation(core.Violation(PROP, "clients-agree", "status=%d body=%r outcomes=%r" % (status, raw[:200], outcomes),
                                         case={"kind": "get_data", "status": status, "body": raw.decode("latin-1")}, mech="get_data:clients-agree"))
    run.mark_distinct(("%s" % (status // 100), label.split("/")[0], kind))
    run.sets.setdefault("status_codes", set()).add(str(status))
    run.sets.setdefault("body_classes", set()).add(label.split("/")[0])




def run(tier: str, seed: int) -> int:
    rng = random.Random(seed)
    thorough = tier == "thorough"
    deps = load_deps()
    r = core.Run(PROP, tier, seed, level="fault_enumeration")
    r.rule = ("full product status-code x response-body-class x 7 client variants (4 base clients, OpenTelemetry ones with and "
              "without a recording tracer); a case is distinct by (status class, body class, expected outcome); errors members are spec-shaped")
    r.assumptions = ["httpx.Response faithfully models a server response", "json module decides what is JSON"]
    clients = make_clients(deps)
    statuses = list(range(200, 600)) if thorough else QUICK_STATUSES
    bodies = body_classes(rng, thorough)
    for status in statuses:
        for label, raw in bodies:
            run_case(r, deps, clients, status, label, raw)
    r.samples = [{"status": s, "body": b.decode("latin-1"), "expected": expected(s, b)[0]} for s, (l, b) in
                 [(200, bodies[0]), (200, bodies[20]), (301, bodies[25]), (200, bodies[-1]), (500, bodies[-1])]]
    from . import c12_gen
    c12_gen.run_part(r, tier, seed)
    r.exhaustive = True
    r.floors.update({"outcome.http": 100, "outcome.invalid": 50, "outcome.multi": 50, "outcome.data": 50})
    return r.finish()


def replay(data) -> int:
    deps = load_deps()
    case = data["case"]
    if case.get("kind") == "generated":
        from . import c12_gen
        res = core.run_forked([case], c12_gen.worker)[0]
        for v in res.violations:
            print(v["detail"][:800])
        return 1 if res.violations else 0
    r = core.Run(PROP, "quick", 0, level="fault_enumeration")
    clients = make_clients(deps)
    run_case(r, deps, clients, case["status"], "replay", case["body"].encode("latin-1"))
    for v in r.violations:
        print(json.dumps(v, indent=1))
    print("replay: %d violation(s)" % len(r.violations))
    return 1 if r.violations else 0
