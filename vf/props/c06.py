"""C06 - input models accept exactly the schema's input values, with its defaults.

For every generated input class: construction by GraphQL names and by Python field names from values that
graphql-core's own input coercion accepts in canonical form; refusal when a required field is missing;
read-back of every schema default; and the value the reference server finally sees for it.
"""
from __future__ import annotations

import json
import random
import sys
import warnings
from typing import Any, Dict, List

from .. import core
from ..core import CaseResult, Violation
from . import _clientworld as cw

PROP = "C06"


def build_case_inputs(case):
    from graphql import build_schema, validate_schema

    from ..gen.schema import Arg, Field, generate_schema

    dirty = set(case.get("dirty", []))
    if case.get("_sdl"):
        import re
        sdl = case["_sdl"]
        schema_ref = build_schema(sdl)
        ops = [d for d in (case.get("_queries") or "").split("\n\n") if d.strip()]
        inputs = re.findall(r"query Carry\d+\(\$payload: (\w+)\)", case.get("_queries") or "")
        return sdl, ops, set(case.get("_features", [])), schema_ref, inputs
    s = case["seed"] * 100003 + case["idx"]
    spec, feats, gen = generate_schema(s, dirty, size="l")
    q = spec.roots["query"]
    ops = []
    for i, iname in enumerate(spec.inputs):
        fname = "carry%dInput" % i
        spec.objects[q][1].append(Field(fname, "Boolean", [Arg("payload", iname)]))
        ops.append("query Carry%d($payload: %s) { %s(payload: $payload) }" % (i, iname, fname))
    sdl = spec.sdl()
    schema_ref = build_schema(sdl)
    if validate_schema(schema_ref):
        return None
    return sdl, ops, set(feats), schema_ref, list(spec.inputs)


def norm(value: Any) -> Any:
    """Model-side value -> comparable JSON-ish value (models by GraphQL names, enum members by value)."""
    import enum

    from pydantic import BaseModel

    if isinstance(value, BaseModel):
        out = {}
        for fname, finfo in type(value).model_fields.items():
            out[finfo.alias or fname] = norm(getattr(value, fname))
        return out
    if isinstance(value, enum.Enum):
        return value.value
    if isinstance(value, (list, tuple)):
        return [norm(v) for v in value]
    if isinstance(value, dict):
        return {k: norm(v) for k, v in value.items()}
    return value


def default_equal(got: Any, want: Any) -> bool:
    """`want` is graphql-core's coerced default (dict for input objects, with nested defaults applied, absent keys for
    fields without value); `got` the normalised model value, where fields without value read None."""
    if isinstance(want, dict):
        if not isinstance(got, dict):
            return False
        for k, v in want.items():
            if k not in got or not default_equal(got[k], v):
                return False
        for k, v in got.items():
            if k not in want and v is not None:
                return False
        return True
    if isinstance(want, list):
        return isinstance(got, list) and len(got) == len(want) and all(default_equal(g, w) for g, w in zip(got, want))
    if isinstance(want, float) and isinstance(got, (int, float)) and not isinstance(got, bool):
        return float(got) == want
    if isinstance(want, bool) != isinstance(got, bool):
        return False
    return got == want


def literal_has_int_for_id(t, node) -> bool:
    """Does a const literal put an integer literal where the type says ID (legal GraphQL, coerced to a string)?"""
    from graphql import GraphQLInputObjectType, GraphQLList, GraphQLNonNull, IntValueNode, ListValueNode, ObjectValueNode

    if isinstance(t, GraphQLNonNull):
        return literal_has_int_for_id(t.of_type, node)
    if isinstance(t, GraphQLList):
        if isinstance(node, ListValueNode):
            return any(literal_has_int_for_id(t.of_type, v) for v in node.values)
        return literal_has_int_for_id(t.of_type, node)
    if isinstance(t, GraphQLInputObjectType) and isinstance(node, ObjectValueNode):
        return any(f.name.value in t.fields and literal_has_int_for_id(t.fields[f.name.value].type, f.value) for f in node.fields)
    return getattr(t, "name", None) == "ID" and isinstance(node, IntValueNode)


def id_int_default_reachable(schema, tname: str) -> bool:
    from graphql import GraphQLInputObjectType, get_named_type

    seen = set()
    todo = [tname]
    while todo:
        n = todo.pop()
        if n in seen:
            continue
        seen.add(n)
        t = schema.type_map[n]
        for f in t.fields.values():
            if f.ast_node is not None and f.ast_node.default_value is not None and literal_has_int_for_id(f.type, f.ast_node.default_value):
                return True
            named = get_named_type(f.type)
            if isinstance(named, GraphQLInputObjectType):
                todo.append(named.name)
    return False


def worker(case: Dict[str, Any]) -> CaseResult:
    from graphql import Undefined, is_required_input_field, parse
    from graphql.utilities import coerce_input_value
    from pydantic import ValidationError

    from ..genpkg import RefServer, call_method, find_methods, import_package, make_client, run_cli, write_case
    from ..values import ValueGen, build_python
    from ..world import World

    stats: Dict[str, Any] = {}
    violations: List[Violation] = []

    def count(k, n=1):
        stats[k] = stats.get(k, 0) + n

    built = build_case_inputs(case)
    if built is None:
        return CaseResult("inconclusive", note="generator produced an invalid schema", stats={"gen_invalid": 1})
    sdl, ops, feats, schema_ref, input_names = built
    feats = set(cw.case_features(case, feats))
    cfg_full = {k: v for k, v in case["cfg"].items() if not k.startswith("_")}
    queries = "\n\n".join(ops)
    replay_case = dict(case)
    replay_case["_sdl"] = sdl
    replay_case["_queries"] = queries
    rng = random.Random(case["seed"] * 17 + case["idx"])
    with core.Scratch() as root:
        cfg = write_case(root, sdl, queries, cfg_full)
        if case["idx"] % 4 == 3:
            # something was generated in this interpreter before: the same inputs with nothing configured
            from ..genpkg import DECOY_KINDS, decoy_generations
            stats["decoy_generations_before"] = decoy_generations(root, sdl, queries, kind=DECOY_KINDS[(case["idx"] // 4) % 4])
        with warnings.catch_warnings():
            warnings.simplefilter("ignore")
            gen = run_cli(root, "client", cfg)
        if not gen.ok:
            return CaseResult("inconclusive", note="generation failed (%s: %s) - C04's concern" % (gen.exc_type, str(gen.exception)[:300]), stats={"generation_failed": 1})
        try:
            pkg = import_package(root, cfg.get("target_package_name", "graphql_client"))
            cw.import_all_modules(pkg, gen.package_dir)
        except BaseException as e:  # noqa: BLE001
            return CaseResult("inconclusive", note="package import failed (%s: %s) - C04's concern" % (type(e).__name__, str(e)[:300]), stats={"import_failed": 1})
        mod = sys.modules["%s.%s" % (pkg.__name__, cfg.get("input_types_module_name", "input_types"))]
        server = RefServer(schema_ref)
        from ..deps import make_tracer
        client, is_async = make_client(pkg, cfg, server, make_tracer() if (case.get("cfg") or {}).get("_tracer") else None)  # the traced code path is a different one
        methods = find_methods(pkg, cfg, ["Carry%d" % i for i in range(len(input_names))])
        thorough = case.get("tier") == "thorough"
        for ti, tname in enumerate(input_names):
            t = schema_ref.type_map[tname]
            cls = getattr(mod, tname, None)
            if cls is None:
                violations.append(Violation(PROP, "class-exists", "no generated class for input %s" % tname, sorted(feats), replay_case, mech="c06:class-exists"))
                continue
            count("input_types")
            alias_to_name = {(fi.alias or n): n for n, fi in cls.model_fields.items()}
            if set(alias_to_name) != set(t.fields):
                violations.append(Violation(PROP, "fields-by-graphql-name", "%s: model wire names %r, schema fields %r" % (tname, sorted(alias_to_name), sorted(t.fields)),
                                            sorted(feats), replay_case, mech="c06:fields-by-graphql-name"))
                continue
            # (a) accepted-by-schema => accepted by the model, both ways of construction
            for k in range(8 if thorough else 4):
                vg = ValueGen(schema_ref, rng)
                v = vg._nonnull(t, 0, minimal=(k == 0))
                confirm = coerce_input_value(v, t)
                v_json = json.loads(json.dumps(v))
                count("values")
                for how in ("by_alias", "by_name"):
                    try:
                        inst = build_python(pkg, cfg, t, v, by_alias=(how == "by_alias"))
                    except BaseException as e:  # noqa: BLE001
                        mech = "c06:accepts:" + type(e).__name__
                        if isinstance(e, ValidationError) and "input_type=int" in str(e) and "valid string" in str(e) and id_int_default_reachable(schema_ref, tname):
                            mech = "default-id-int-literal"
                        violations.append(Violation(PROP, "accepts-schema-valid-value", "%s (%s): schema-valid value %s refused: %s: %s" % (
                            tname, how, json.dumps(v_json)[:500], type(e).__name__, str(e)[:400]), sorted(feats | vg.feats), replay_case, mech=mech))
                        break
                    count("constructions")
                    dumped = json.loads(json.dumps(inst.model_dump(mode="json", by_alias=True, exclude_unset=True)))
                    if dumped != v_json:
                        violations.append(Violation(PROP, "carries-value", "%s (%s): built from %s, dumps %s" % (tname, how, json.dumps(v_json)[:400], json.dumps(dumped)[:400]),
                                                    sorted(feats | vg.feats), replay_case, mech="c06:carries-value"))
                # (b) removing a required field => ValidationError
                for fname, f in t.fields.items():
                    if is_required_input_field(f) and fname in v:
                        broken = {kk: vv for kk, vv in v.items() if kk != fname}
                        count("required_removals")
                        try:
                            cls.model_validate(broken)
                        except ValidationError:
                            count("required_removals_rejected")
                        except BaseException as e:  # noqa: BLE001
                            count("required_removals_other_exception")
                        else:
                            violations.append(Violation(PROP, "refuses-missing-required", "%s: value without required field %s accepted" % (tname, fname),
                                                        sorted(feats), replay_case, mech="c06:refuses-missing-required"))
            # (c)/(d) defaults
            vg = ValueGen(schema_ref, rng)
            minimal = vg._nonnull(t, 0, minimal=True)
            defaults = {fname: f.default_value for fname, f in t.fields.items() if f.default_value is not Undefined and fname not in minimal}
            if not defaults:
                continue
            try:
                inst = cls.model_validate(minimal)
            except BaseException as e:  # noqa: BLE001
                mech = "c06:default-construction:" + type(e).__name__
                if isinstance(e, ValidationError) and "input_type=int" in str(e) and "valid string" in str(e) and id_int_default_reachable(schema_ref, tname):
                    mech = "default-id-int-literal"
                violations.append(Violation(PROP, "default-construction", "%s: instance without defaulted fields %r cannot be created: %s: %s" % (
                    tname, sorted(defaults), type(e).__name__, str(e)[:400]), sorted(feats), replay_case, mech=mech))
                continue
            for fname, want in defaults.items():
                count("defaults_read_back")
                lit = t.fields[fname].ast_node.default_value if t.fields[fname].ast_node else None
                kind = lit.kind if lit is not None else "?"
                feats.add("default.kind." + kind)
                got = norm(getattr(inst, alias_to_name[fname]))
                want_json = json.loads(json.dumps(want))
                if not default_equal(got, want_json):
                    mech = "c06:default-read-back:" + kind
                    from graphql import GraphQLInputObjectType, get_named_type
                    fnamed = get_named_type(t.fields[fname].type)
                    if lit is not None and (literal_has_int_for_id(t.fields[fname].type, lit) or (
                            isinstance(fnamed, GraphQLInputObjectType) and id_int_default_reachable(schema_ref, fnamed.name))):
                        # attribute only when turning ints into strings explains the whole difference
                        def intify(x):
                            if isinstance(x, dict):
                                return {k: intify(v) for k, v in x.items()}
                            if isinstance(x, list):
                                return [intify(v) for v in x]
                            if isinstance(x, str) and x.lstrip("-").isdigit():
                                return int(x)
                            return x
                        if default_equal(intify(got), intify(want_json)):
                            mech = "default-id-int-literal"
                    violations.append(Violation(PROP, "default-read-back", "%s.%s: schema default %s (literal kind %s), model reads back %r" % (
                        tname, fname, json.dumps(want_json)[:300], kind, got), sorted(feats), replay_case, mech=mech))
            # the value the server finally sees
            mname = methods.get("Carry%d" % ti)
            if mname is None:
                continue
            world = World(schema_ref, seed=ti)
            server.world = world
            status, value = call_method(client, is_async, mname, {"payload": inst})
            if status != "ok":
                violations.append(Violation(PROP, "server-sees-default", "%s: carrier call failed: %s: %s" % (tname, type(value).__name__, str(value)[:300]),
                                            sorted(feats), replay_case, mech="c06:carrier-call:" + type(value).__name__))
                continue
            recv = [a for p, f, a in world.received_args if f == "carry%dInput" % ti]
            if not recv:
                count("carrier_not_resolved")
                continue
            seen = recv[0].get("payload") or {}
            for fname, want in defaults.items():
                count("defaults_seen_by_server")
                if json.loads(json.dumps(seen.get(fname, "<absent>"), default=str)) != json.loads(json.dumps(want, default=str)):
                    violations.append(Violation(PROP, "server-sees-default", "%s.%s: server received %r, schema default %r (sent variables %s)" % (
                        tname, fname, seen.get(fname, "<absent>"), want, json.dumps(server.captured[-1].get("variables"))[:300]), sorted(feats), replay_case,
                        mech="c06:server-sees-default"))
    sample = None
    if case["idx"] < 2:
        sample = {"input_types_sdl": [d for d in sdl.split("\n\n") if d.startswith("input ")][:4], "config": case["cfg"]}
    return CaseResult("violated" if violations else "held", [v.to_json() for v in violations], stats, {"features": sorted(feats)}, sample=sample)


def run(tier: str, seed: int) -> int:
    r = core.Run(PROP, tier, seed)
    r.rule = ("seeded schemas rich in input objects (all wrapper combinations, enums, nested/recursive inputs, custom scalars, defaults of every literal kind); per input "
              "class 4-8 values confirmed by graphql-core coerce_input_value, built by alias and by field name; each required field removed once; every schema default "
              "read back and observed at the reference resolver through a carrier query; distinct = distinct feature-set")
    r.assumptions = ["graphql-core coerce_input_value / default_value are the model of the schema's input coercion"]
    r.floors = {"constructions": 500, "required_removals": 100, "defaults_read_back": 100, "defaults_seen_by_server": 100}
    n = 1500 if tier == "thorough" else 400
    name_classes = [[], ["schema.extend"], ["wrap.deep"], ["enum.keyword_value"], ["names.keyword"], [], ["names.pydantic_attr"], ["enum.keyword_value", "names.keyword"], ["names.leading_underscore"], ["names.soft_keyword"]]
    cases = [cw.make_case(seed, i, dirty=name_classes[i % len(name_classes)], tier=tier) for i in range(n)]

    def on_result(case, res):
        r.add(case, res)
        if res.status != "inconclusive":
            r.mark_distinct(tuple(sorted(res.sets.get("features", []))))

    core.run_forked(cases, worker, timeout_s=180, on_result=on_result)
    return r.finish()


def replay(data) -> int:
    case = dict(data["case"])
    res = core.run_forked([case], worker)[0]
    print("status:", res.status, res.note)
    for v in res.violations:
        print("-", v["clause"], "::", v["detail"][:1500])
    return 1 if res.violations else 0
