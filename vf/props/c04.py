"""C04 - every valid input generates, and what is generated loads (see _clientworld.py for the worker)."""
from . import _clientworld as cw

PROP = "C04"
RULE = ("seeded valid schema x valid operation set x config rotation; the real CLI is run (explicit strategy argument), the outcome is classified "
        "(success / documented refusal with its cause present / anything else = violation), every emitted module is parsed and imported in the fresh fork, "
        "every pydantic model must be complete, __all__ must equal the names bound in __init__, the reported file list must equal the files written; "
        "distinct = distinct generator feature-set")


def run(tier, seed):
    n = 2500 if tier == "thorough" else 300
    return cw.run_shared(PROP, tier, seed, n, RULE, floors={"generated": 100, "c04_load_checks": 100},
                         extra_case_kw={"allow_sync_subscription": True}, case_hook=cw.with_custom_operations,
                         dirty_sets=[[], [], ["frag.many"], [], [], ["frag.many"], [], [], ["strlit.single_quote"], ["strlit.block"], ["shape.iface_hierarchy"],
                                     ["names.keyword"], ["names.pydantic_attr"], ["names.leading_underscore"], ["frag.inline.on_interface"], ["dir.custom", "frag.uses_variables"], ["schema.extend"], ["frag.inline.on_same_abstract"]])


def replay(data):
    return cw.replay_shared(PROP, data)
