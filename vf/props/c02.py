"""C02 - the document sent is the document written (see _clientworld.py / docoracle.py)."""
from . import _clientworld as cw

PROP = "C02"
RULE = ("seeded valid schema x generated operations (string literals from every clean character class, fragment graphs incl. nested/shared/unused, "
        "directives, @mixin) x config rotation; the query text captured at the transport is parsed, validated against the harness-built schema with all "
        "specified rules and compared node by node with the authored operation + reachable fragments after undoing the two documented rewrites; "
        "distinct = distinct generator feature-set")


def run(tier, seed):
    n = 2000 if tier == "thorough" else 220
    return cw.run_shared(PROP, tier, seed, n, RULE, floors={"c02.documents_checked": 300, "c02.fragments_compared": 30, "c02.auto_typenames_removed": 50, "c02.nodes_compared": 2000}, case_hook=cw.with_mixins, dirty_sets=[[], ["dir.custom"], [], ["shape.iface_hierarchy"], ["frag.uses_variables", "dir.custom"], [], ["strlit.escape_n"], ["frag.many"], ["schema.extend"], ["frag.many", "frag.uses_variables"], ["frag.inline.on_same_abstract"]])


def replay(data):
    return cw.replay_shared(PROP, data)
