"""C03 - method arguments arrive at the server as the declared variables.

Workload: for every generated operation with variables, several *abstract argument values* (JSON trees keyed by
GraphQL names with OMIT for 'not supplied'), turned into Python arguments (input models built by alias or by
Python field name, enum members, lists, explicit None, omitted).  Observations: the variables JSON captured at
the transport, graphql-core's coercion of it, and the arguments the reference resolvers receive.
"""
from __future__ import annotations

import json
import random
import warnings
from typing import Any, Dict, List

from .. import core
from ..core import CaseResult, Violation
from . import _clientworld as cw

PROP = "C03"


def worker(case: Dict[str, Any]) -> CaseResult:
    from graphql import OperationDefinitionNode, parse, type_from_ast
    from graphql.execution.values import get_variable_values

    from ..genpkg import RefServer, call_method, find_methods, import_package, make_client, patched_ws, probe_param_map, run_cli, write_case
    from ..values import OMIT, ValueGen, python_args, strip_omit
    from ..world import World, run_query

    stats: Dict[str, Any] = {}
    sets: Dict[str, List[str]] = {}
    violations: List[Violation] = []

    def count(k, n=1):
        stats[k] = stats.get(k, 0) + n

    built = cw.build_inputs(case)
    if built is None:
        return CaseResult("inconclusive", note="generator could not produce a valid schema/document", stats={"gen_invalid": 1})
    sdl, frs, ops, names, feats, schema_ref = built
    feats = set(cw.case_features(case, feats))
    uploads = False
    if case.get("upload"):
        # the documented file-upload route: a scalar called Upload becomes the bundled Upload class in arguments and input fields, and a call
        # carrying one goes out as a multipart request
        import re as _re

        from graphql import GraphQLScalarType, build_schema
        if "Upload" not in schema_ref.type_map:
            customs = sorted(n for n, t in schema_ref.type_map.items() if isinstance(t, GraphQLScalarType) and n not in ("String", "Int", "Float", "Boolean", "ID"))
            if customs:
                pat = _re.compile(r"\b%s\b" % _re.escape(customs[0]))
                sdl = pat.sub("Upload", sdl)
                frs = [pat.sub("Upload", x) for x in frs]
                ops = [pat.sub("Upload", x) for x in ops]
                schema_ref = build_schema(sdl)
        uploads = "Upload" in schema_ref.type_map
        if uploads:
            feats.add("scalar.upload")
    cfg_full = dict(case["cfg"])
    cfg_full.pop("_tracer", None)
    queries = "\n\n".join(frs + ops)
    authored = parse(queries)
    replay_case = dict(case)
    replay_case["_sdl"] = sdl
    replay_case["_queries"] = queries
    with core.Scratch() as root:
        cfg = write_case(root, sdl, queries, cfg_full)
        if case["idx"] % 5 == 1 and not case.get("config_rel"):
            from ..genpkg import plant_stale_bundled_copies
            stats["stale_bundled_copies_planted"] = plant_stale_bundled_copies(root, cfg)  # the target holds another release's copies: they must be replaced
        if case["idx"] % 4 == 3:
            # something was generated in this interpreter before: the same inputs with nothing configured
            from ..genpkg import DECOY_KINDS, decoy_generations
            stats["decoy_generations_before"] = decoy_generations(root, sdl, queries, kind=DECOY_KINDS[(case["idx"] // 4) % 4])
        with warnings.catch_warnings():
            warnings.simplefilter("ignore")
            gen = run_cli(root, "client", cfg)
        if not gen.ok:
            return CaseResult("inconclusive", note="generation failed (%s: %s) - C04's concern" % (gen.exc_type, str(gen.exception)[:200]), stats={"generation_failed": 1})
        try:
            pkg = import_package(root, cfg.get("target_package_name", "graphql_client"))
            cw.import_all_modules(pkg, gen.package_dir)
        except BaseException as e:  # noqa: BLE001
            if "copy left by an older release" in str(e):
                # what the harness planted in the target before generating is still there: no call can send anything through this package
                return CaseResult("violated", [Violation(PROP, "request-sent", "the package generated into a target that held another release's copies of the bundled files does not load: "
                                                         "%s: %s" % (type(e).__name__, str(e)[:300]), sorted(feats), replay_case, mech="c03:stale-bundled-copy").to_json()], stats, {"features": sorted(feats)})
            return CaseResult("inconclusive", note="package import failed (%s) - C04's concern" % type(e).__name__, stats={"import_failed": 1})
        server = RefServer(schema_ref)
        from ..deps import make_tracer
        client, is_async = make_client(pkg, cfg, server, make_tracer() if (case.get("cfg") or {}).get("_tracer") else None)  # the traced code path is a different one
        methods = find_methods(pkg, cfg, names)
        rng = random.Random(case["seed"] * 13 + case["idx"])
        op_nodes = {d.name.value: d for d in authored.definitions if isinstance(d, OperationDefinitionNode)}
        n_scripts = 10 if case.get("tier") == "thorough" else 5
        for op_name in names:
            opnode = op_nodes[op_name]
            if not opnode.variable_definitions:
                continue
            mname = methods.get(op_name)
            if mname is None:
                continue
            is_sub = opnode.operation.value == "subscription"
            pmap = probe_param_map(client, is_async, mname, server, is_sub)
            var_names = [vd.variable.name.value for vd in opnode.variable_definitions]
            if set(pmap) != set(var_names):
                violations.append(Violation(PROP, "variable-parameters", "%s: variables %r but the probe call delivered only %r (parameter map %r)" % (
                    op_name, var_names, sorted(pmap), pmap), sorted(feats), replay_case, mech="c03:variable-parameters"))
                continue
            count("operations_with_variables")
            required = [vd.variable.name.value for vd in opnode.variable_definitions if vd.type.kind == "non_null_type" and vd.default_value is None]
            for si in range(n_scripts):
                vg = ValueGen(schema_ref, rng, custom_scalar_values=({"Upload": lambda n: "upload-tok#%d" % n} if uploads else None))
                tree = vg.variables(opnode, minimal=(si == 0))
                if si == 1:  # everything supplied
                    for vd in opnode.variable_definitions:
                        n = vd.variable.name.value
                        if tree[n] is OMIT:
                            tree[n] = vg.value(type_from_ast(schema_ref, vd.type), 0, False, top=False)
                by_alias = si % 2 == 0
                feats.update(vg.feats)
                feats.add("arg.by_alias" if by_alias else "arg.by_name")
                try:
                    made_uploads: Dict[str, Any] = {}

                    def as_python(scalar_name, token):
                        if uploads and scalar_name == "Upload" and isinstance(token, str) and token.startswith("upload-tok#"):
                            import io
                            import sys as _sys
                            up_cls = getattr(_sys.modules[pkg.__name__ + ".base_model"], "Upload")
                            made_uploads[token] = up_cls(filename=token.replace("#", "_") + ".txt", content=io.BytesIO(token.encode()), content_type="text/x-vf")
                            return made_uploads[token]
                        return token

                    kwargs = python_args(pkg, cfg, opnode, tree, schema_ref, by_alias=by_alias, pmap=pmap, transform=as_python if uploads else None)
                except BaseException as e:  # noqa: BLE001
                    count("args_unbuildable_c06_concern")  # the input model refused a schema-valid value: C06 decides that
                    continue
                expected = json.loads(json.dumps(strip_omit(tree)))
                if is_sub and uploads and made_uploads:
                    count("upload_in_subscription_skipped")  # the multipart request specification is an HTTP matter; a file in a websocket frame has no defined meaning
                    continue
                world = World(schema_ref, seed=case["seed"] * 1000 + si, mode="full", rotation=si)
                server.world = world
                n0 = len(server.captured)
                if is_sub:
                    with patched_ws(client, server, [world]):
                        status, value = call_method(client, is_async, mname, kwargs)
                else:
                    status, value = call_method(client, is_async, mname, kwargs)
                count("calls")
                if len(server.captured) != n0 + 1:
                    violations.append(Violation(PROP, "request-sent", "%s: %d requests captured; call outcome %s %s" % (
                        op_name, len(server.captured) - n0, status, (type(value).__name__ + ": " + str(value)[:300]) if status == "exc" else ""),
                        sorted(feats), replay_case, mech="c03:request-sent"))
                    continue
                body = server.captured[-1]
                sent = body.get("variables")
                if sent is None:
                    sent = {}
                if uploads:
                    # file positions: the request is multipart exactly when an Upload travels, `operations` has null there, one part per Upload,
                    # each with its own file name, content type and bytes (the reference server has already put the bytes' token back in place)
                    count("upload_calls" if made_uploads else "upload_free_calls")
                    files = body.get("__files__") or {}
                    if bool(made_uploads) != bool(body.get("__multipart__")):
                        violations.append(Violation(PROP, "upload-multipart", "%s: %d Upload object(s) in the arguments, request %s multipart" % (
                            op_name, len(made_uploads), "is" if body.get("__multipart__") else "is not"), sorted(feats), replay_case, mech="c03:upload-multipart"))
                        continue
                    if made_uploads:
                        got_files = sorted((f["filename"], f["content_type"], f["content"]) for f in files.values())
                        want_files = sorted((u.filename, u.content_type, tok.encode()) for tok, u in made_uploads.items())
                        if got_files != want_files or not body.get("__null_positions_ok__"):
                            violations.append(Violation(PROP, "upload-parts", "%s: parts sent %r, expected %r; null at every file position of operations: %s" % (
                                op_name, got_files[:4], want_files[:4], body.get("__null_positions_ok__")), sorted(feats), replay_case, mech="c03:upload-parts"))
                            continue
                        count("upload_parts_checked", len(want_files))
                count("variables_payloads")
                count("variable_values", len(expected))
                if sent != expected:
                    missing = sorted(set(expected) - set(sent))
                    extra = sorted(set(sent) - set(expected))
                    clause = "omitted-absent" if extra and not missing and all(sent[k] is None or isinstance(sent[k], (str, dict)) for k in extra) else "payload-equal"
                    violations.append(Violation(PROP, clause, "%s: variables sent %s\nexpected %s" % (op_name, json.dumps(sent, sort_keys=True)[:800], json.dumps(expected, sort_keys=True)[:800]),
                                                sorted(feats), replay_case, mech="c03:" + clause))
                    continue
                # coercion by the reference implementation must accept it
                coerced = get_variable_values(schema_ref, opnode.variable_definitions, sent)
                if isinstance(coerced, list):
                    violations.append(Violation(PROP, "coercion-accepts", "%s: spec coercion rejects the sent variables %s: %s" % (
                        op_name, json.dumps(sent)[:500], "; ".join(e.message for e in coerced)[:500]), sorted(feats), replay_case, mech="c03:coercion-accepts"))
                    continue
                count("coercions_ok")
                # resolver-received arguments == what the authored operation delivers for the abstract value
                ref_world = World(schema_ref, seed=case["seed"] * 1000 + si, mode="full", rotation=si)
                _, verrs, res = run_query(schema_ref, ref_world, "\n\n".join(frs + [ops[names.index(op_name)]]), expected, op_name)
                if verrs or res is None:
                    count("reference_run_invalid")
                    continue
                got = [(p, f, json.loads(json.dumps(a, default=str, sort_keys=True))) for p, f, a in world.received_args if a]
                want = [(p, f, json.loads(json.dumps(a, default=str, sort_keys=True))) for p, f, a in ref_world.received_args if a]
                count("resolver_argument_sets", len(want))
                if got != want:
                    violations.append(Violation(PROP, "resolver-receives", "%s: resolver arguments differ from the authored operation's\n got  %s\n want %s" % (
                        op_name, json.dumps(got)[:600], json.dumps(want)[:600]), sorted(feats), replay_case, mech="c03:resolver-receives"))
            # a required variable cannot be omitted
            if required:
                vg = ValueGen(schema_ref, rng)
                tree = vg.variables(opnode, minimal=True)
                drop = rng.choice(required)
                kwargs = python_args(pkg, cfg, opnode, tree, schema_ref, by_alias=True, pmap=pmap)
                kwargs.pop(pmap[drop], None)
                n0 = len(server.captured)
                server.world = World(schema_ref, seed=1)
                if is_sub:
                    with patched_ws(client, server, [server.world]):
                        status, value = call_method(client, is_async, mname, kwargs)
                else:
                    status, value = call_method(client, is_async, mname, kwargs)
                count("required_omission_attempts")
                if not (status == "exc" and isinstance(value, TypeError)) or len(server.captured) != n0:
                    violations.append(Violation(PROP, "required-cannot-be-omitted", "%s: calling without required variable %s -> %s %r, %d requests sent" % (
                        op_name, drop, status, value if status == "exc" else type(value).__name__, len(server.captured) - n0), sorted(feats), replay_case,
                        mech="c03:required-cannot-be-omitted"))
    sets["features"] = sorted(feats)
    sample = None
    if case["idx"] < 2:
        sample = {"operations": [o[:300] for o in ops], "config": case["cfg"]}
    return CaseResult("violated" if violations else "held", [v.to_json() for v in violations], stats, sets, sample=sample)


def run(tier: str, seed: int) -> int:
    r = core.Run(PROP, tier, seed)
    r.rule = ("seeded valid schema x operations with variables (every wrapper combination, defaults, enums, (recursive) input objects, custom scalars, camel/snake names) x "
              "5-10 argument scripts each (minimal, everything supplied, random incl. explicit None / omitted / nested unset fields; input models built by alias and by "
              "Python field name) x config rotation; distinct = distinct generator+value feature-set")
    r.assumptions = ["graphql-core get_variable_values / executor are the model of spec-conformant coercion", "httpx.MockTransport is a faithful transport"]
    r.floors = {"variables_payloads": 300, "coercions_ok": 300, "resolver_argument_sets": 300, "required_omission_attempts": 50}
    n = 1500 if tier == "thorough" else 170
    name_classes = [["wrap.deep"], ["frag.uses_variables", "dir.custom"], ["schema.extend"], ["enum.keyword_value"], ["names.keyword"], [], ["names.pydantic_attr"], ["enum.keyword_value", "names.keyword"], ["names.leading_underscore"], ["names.soft_keyword"]]
    cases = [cw.make_case(seed, i, dirty=name_classes[i % len(name_classes)], tier=tier) for i in range(n)]
    for i, c in enumerate(cases):
        if i % 6 == 3:
            c["upload"] = True
            c["dirty"] = sorted(set(c["dirty"]) | {"schema.force_scalar"})

    def on_result(case, res):
        r.add(case, res)
        if res.status != "inconclusive":
            r.mark_distinct(tuple(sorted(res.sets.get("features", []))))

    core.run_forked(cases, worker, timeout_s=180, on_result=on_result)
    return r.finish()


def replay(data) -> int:
    case = dict(data["case"])
    res = core.run_forked([case], worker)[0]
    print("status:", res.status, res.note)
    for v in res.violations:
        print("-", v["clause"], "::", v["detail"][:1500])
    return 1 if res.violations else 0
