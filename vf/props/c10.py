"""C10 - generation is deterministic and idempotent.

Real `python -m ariadne_codegen` subprocesses (a fork would inherit the parent's hash seed) over the same inputs
under different PYTHONHASHSEED values, different creation orders of the schema/query files of a directory,
and regenerating over an existing generation; sha256 of every produced file is compared.
"""
from __future__ import annotations

import hashlib
import json
import os
import random
import shutil
import subprocess
import sys
import time
from concurrent.futures import ThreadPoolExecutor
from pathlib import Path
from typing import Any, Dict, List, Optional, Tuple

import toml

from .. import core
from ..core import Violation
from . import _clientworld as cw

PROP = "C10"
PLUGIN_SETS = [[], ["ariadne_codegen.contrib.shorter_results.ShorterResultsPlugin"], ["ariadne_codegen.contrib.extract_operations.ExtractOperationsPlugin"],
               ["ariadne_codegen.contrib.client_forward_refs.ClientForwardRefsPlugin"],
               ["ariadne_codegen.contrib.shorter_results.ShorterResultsPlugin", "ariadne_codegen.contrib.extract_operations.ExtractOperationsPlugin",
                "ariadne_codegen.contrib.no_reimports.NoReimportsPlugin"]]


def digest_tree(root: Path) -> Dict[str, str]:
    out = {}
    for p in sorted(root.rglob("*")):
        if p.is_file() and "__pycache__" not in p.parts:
            out[str(p.relative_to(root))] = hashlib.sha256(p.read_bytes()).hexdigest()
    return out


SITECUSTOMIZE = '''
# injected by the verification harness: directory enumeration order is a property of the file system (creation order on some, hash order on
# others); a seeded shuffle of what Path.glob yields stands for "another file system / another creation order"
import os, pathlib, random
_seed = os.environ.get("VF_GLOB_SHUFFLE")
if _seed:
    _orig = pathlib.Path.glob
    def _glob(self, *a, **k):
        items = list(_orig(self, *a, **k))
        random.Random(int(_seed)).shuffle(items)
        return iter(items)
    pathlib.Path.glob = _glob
    # the same for the lower-level enumeration calls (os.walk and pathlib sit on os.scandir / os.listdir)
    _scandir, _listdir = os.scandir, os.listdir

    class _Shuffled:
        def __init__(self, it):
            with it:
                self._items = list(it)
            random.Random(int(_seed)).shuffle(self._items)
            self._it = iter(self._items)
        def __iter__(self):
            return self
        def __next__(self):
            return next(self._it)
        def __enter__(self):
            return self
        def __exit__(self, *a):
            return False
        def close(self):
            pass

    def _scandir_shuffled(path="."):
        return _Shuffled(_scandir(path))

    def _listdir_shuffled(path="."):
        items = _listdir(path)
        random.Random(int(_seed)).shuffle(items)
        return items

    os.scandir = _scandir_shuffled
    os.listdir = _listdir_shuffled
'''


class IntrospectionEndpoint:
    """A loopback HTTP endpoint answering introspection queries from a schema with graphql-core (the generator subprocesses post to it).
    `legacy`: the server predates @specifiedBy / @oneOf / @deprecated on input values and does not list those directives."""

    def __init__(self, sdl: str, legacy: bool):
        import http.server
        import threading

        from graphql import build_schema, graphql_sync
        schema = build_schema(sdl)
        outer = self
        self.requests = 0

        class H(http.server.BaseHTTPRequestHandler):
            def do_POST(self):  # noqa: N802
                n = int(self.headers.get("content-length") or 0)
                body = json.loads(self.rfile.read(n) or b"{}")
                res = graphql_sync(schema, body.get("query") or "")
                data = res.data
                if legacy and data and "__schema" in data:
                    data = json.loads(json.dumps(data))
                    data["__schema"]["directives"] = [d for d in data["__schema"]["directives"] if d["name"] not in ("specifiedBy", "oneOf")]
                out = json.dumps({"data": data} if not res.errors else {"errors": [{"message": e.message} for e in res.errors]}).encode()
                outer.requests += 1
                self.send_response(200)
                self.send_header("Content-Type", "application/json")
                self.send_header("Content-Length", str(len(out)))
                self.end_headers()
                self.wfile.write(out)

            def log_message(self, *a):
                pass

        self.server = http.server.ThreadingHTTPServer(("127.0.0.1", 0), H)
        self.url = "http://127.0.0.1:%d/graphql" % self.server.server_address[1]
        self.thread = threading.Thread(target=self.server.serve_forever, daemon=True)
        self.thread.start()

    def close(self):
        self.server.shutdown()
        self.server.server_close()


def run_generation(workdir: Path, strategy: str, hashseed: str, glob_shuffle: Optional[int] = None) -> Tuple[int, str]:
    env = dict(os.environ)
    env["PYTHONHASHSEED"] = hashseed
    inj = workdir.parent / "_inject"
    inj.mkdir(exist_ok=True)
    (inj / "sitecustomize.py").write_text(SITECUSTOMIZE)
    env["PYTHONPATH"] = str(core.REPO) + os.pathsep + str(inj)
    if glob_shuffle is not None:
        env["VF_GLOB_SHUFFLE"] = str(glob_shuffle)
    else:
        env.pop("VF_GLOB_SHUFFLE", None)
    env["PYTHONDONTWRITEBYTECODE"] = "1"
    p = subprocess.run(["/venv/bin/python", "-W", "ignore", "-m", "ariadne_codegen", strategy], cwd=workdir, env=env, capture_output=True, text=True, timeout=300)
    return p.returncode, (p.stdout + p.stderr)[-1500:]


HISTORY_DRIVER = '''"""Several generations in ONE interpreter: decoys first, then the project (twice, with the same loaded configuration object)."""
import json
import os
import sys

from ariadne_codegen.config import get_config_dict
from ariadne_codegen.main import client, graphql_schema

fn = {"client": client, "graphqlschema": graphql_schema}
rc = 0
for st in json.load(open(sys.argv[1])):
    os.chdir(st["dir"])
    try:
        cfg = get_config_dict(None)
        fn[st["strategy"]](cfg)
        if st.get("twice"):
            fn[st["strategy"]](cfg)
    except BaseException as e:  # noqa: BLE001
        if st.get("must"):
            sys.stderr.write("STEP-FAILED %s %s: %s\\n" % (st["dir"], type(e).__name__, str(e)[:400]))
            rc = 1
sys.exit(rc)
'''


def run_history(base: Path, steps: List[Dict[str, Any]], hashseed: str, glob_shuffle: Optional[int]) -> Tuple[int, str]:
    env = dict(os.environ)
    env["PYTHONHASHSEED"] = hashseed
    inj = base / "_inject"
    inj.mkdir(exist_ok=True)
    (inj / "sitecustomize.py").write_text(SITECUSTOMIZE)
    env["PYTHONPATH"] = str(core.REPO) + os.pathsep + str(inj)
    if glob_shuffle is not None:
        env["VF_GLOB_SHUFFLE"] = str(glob_shuffle)
    else:
        env.pop("VF_GLOB_SHUFFLE", None)
    env["PYTHONDONTWRITEBYTECODE"] = "1"
    (base / "_history_driver.py").write_text(HISTORY_DRIVER)
    (base / "_history_steps.json").write_text(json.dumps(steps))
    p = subprocess.run(["/venv/bin/python", "-W", "ignore", str(base / "_history_driver.py"), str(base / "_history_steps.json")], cwd=base, env=env, capture_output=True, text=True, timeout=600)
    return p.returncode, (p.stdout + p.stderr)[-1500:]


def lay_out(workdir: Path, sdl_defs: List[str], query_defs: List[str], cfg: Dict[str, Any], order_seed: Optional[int], strategy: str) -> None:
    """Write inputs. order_seed None: single files; else: directories whose files are created in a seeded order."""
    workdir.mkdir(parents=True, exist_ok=True)
    c = dict(cfg)
    remote = bool(c.get("remote_schema_url"))
    if order_seed is None:
        if not remote:
            (workdir / "schema.graphql").write_text("\n\n".join(sdl_defs) + "\n")
            c["schema_path"] = "schema.graphql"
        if strategy == "client":
            (workdir / "queries.graphql").write_text("\n\n".join(query_defs) + "\n")
            c["queries_path"] = "queries.graphql"
    else:
        # the partition into files is fixed (by index); only the *creation order* (and mtimes) vary
        rng = random.Random(order_seed)
        jobs = []
        exts = [".graphql", ".graphqls", ".gql"]
        for i, d in enumerate(sdl_defs):
            sub = ["", "a", "b/c"][i % 3]
            # the same file NAME recurs in different sub-directories (users/types.graphql, orders/types.graphql)
            jobs.append((workdir / "schema_dir" / sub / ("types%d%s" % (i // 6, exts[(i // 3) % 3])), d))
        if strategy == "client":
            for i, d in enumerate(query_defs):
                jobs.append((workdir / "queries_dir" / ["", "x"][i % 2] / ("ops%d%s" % (i // 4, exts[(i // 2) % 3])), d))
        files: Dict[Path, List[str]] = {}
        for p, d in jobs:
            files.setdefault(p, []).append(d)
        items = list(files.items())
        rng.shuffle(items)
        for k, (p, ds) in enumerate(items):
            p.parent.mkdir(parents=True, exist_ok=True)
            p.write_text("\n\n".join(ds) + "\n")
            t = 1_600_000_000 + rng.randrange(0, 10_000_000)
            os.utime(p, (t, t))
        if not remote:
            c["schema_path"] = "schema_dir"
        if strategy == "client":
            c["queries_path"] = "queries_dir"
    (workdir / "pyproject.toml").write_text(toml.dumps({"tool": {"ariadne-codegen": c}}))


def one_case(case: Dict[str, Any]) -> Dict[str, Any]:
    """-> {'violations': [...], 'stats': {...}, 'feats': [...]}"""
    from graphql import build_schema

    built = cw.build_inputs(case)
    out: Dict[str, Any] = {"violations": [], "stats": {}, "feats": [], "status": "held"}
    if built is None:
        out["status"] = "inconclusive"
        return out
    sdl, frs, ops, names, feats, schema_ref = built
    from ..gen.schema import generate_schema
    spec, _, _ = generate_schema(case["seed"] * 100003 + case["idx"], set(case.get("dirty", [])), size=case.get("size", "m"))
    sdl_defs = spec.definitions()
    if case.get("_sdl"):
        sdl_defs = [d for d in case["_sdl"].split("\n\n") if d.strip()]
    query_defs = frs + ops
    strategy = case["strategy"]
    if case.get("colliding_keys") and strategy == "client":
        # response keys that meet after the name mapping (a listed matter for C18): whatever the generator does with them, it must do the same under every hash seed
        from graphql import get_named_type, is_leaf_type, is_required_argument
        q_ = schema_ref.query_type
        leafs = [n for n, f in q_.fields.items() if is_leaf_type(get_named_type(f.type)) and not any(is_required_argument(a) for a in f.args.values())]
        if leafs:
            keys = ["userId", "user_id", "a1", "a_1", "_x", "x", "fooBar", "foo_bar"]
            query_defs = query_defs + ["query VfCollidingKeys { %s }" % " ".join("%s: %s" % (k, leafs[j % len(leafs)]) for j, k in enumerate(keys))]
            feats = set(feats) | {"names.colliding_response_keys"}
    cfg: Dict[str, Any] = dict(case["cfg"])
    cfg.pop("_tracer", None)
    if strategy == "client":
        cfg["include_comments"] = case.get("comments", "none")
        cfg["plugins"] = case.get("plugins", [])
    else:
        cfg = {"target_file_path": case.get("target", "schema_out.py"), "plugins": []}
    feats = set(feats)
    feats.add("strategy." + strategy)
    extra_files: Dict[str, str] = {}
    if strategy == "client" and case.get("scalar_paths") and spec.scalars:
        # custom scalar types imported by absolute name from the target package itself, from a module lying in the working directory, or relatively:
        # where the import sorter files them must not depend on what the working directory happens to contain at that moment
        pkgname = cfg.get("target_package_name", "graphql_client")
        style = case["scalar_paths"]
        cfg["scalars"] = {}
        for k, sname in enumerate(spec.scalars):
            how = style if style != "mixed" else ["absolute-own-package", "cwd-module", "relative"][k % 3]
            if how == "absolute-own-package":
                cfg["scalars"][sname] = {"type": "%s.vf_scalars.VfSc%d" % (pkgname, k)}
            elif how == "cwd-module":
                cfg["scalars"][sname] = {"type": "local_scalars.VfSc%d" % k}
            else:
                cfg["scalars"][sname] = {"type": ".vf_scalars.VfSc%d" % k}
            feats.add("scalar.path." + how)
        body = "".join("class VfSc%d(str):\n    pass\n\n\n" % k for k in range(len(spec.scalars)))
        extra_files = {"vf_scalars.py": body, "local_scalars.py": body}
        cfg["files_to_include"] = ["vf_scalars.py"]
    for pl in cfg.get("plugins", []):
        feats.add("plugin." + pl.rsplit(".", 1)[1])
    out["feats"] = sorted(feats)
    import tempfile
    base = Path(tempfile.mkdtemp(prefix="vf-c10-"))
    digests: Dict[str, Dict[str, str]] = {}
    logs: Dict[str, str] = {}
    endpoint = None
    if case.get("remote"):
        # the schema comes from a remote endpoint (loopback): what the endpoint lists, and in which order, is one more input whose handling must not depend on the hash seed
        try:
            endpoint = IntrospectionEndpoint("\n\n".join(sdl_defs) + "\n", legacy=(case["remote"] == "legacy"))
            cfg["remote_schema_url"] = endpoint.url
            feats.add("source.remote." + case["remote"])
            out["feats"] = sorted(feats)
        except Exception as e:  # noqa: BLE001
            out["status"] = "inconclusive"
            out["note"] = "loopback endpoint unavailable: %s" % e
            return out
    try:
        variants: List[Tuple[str, Optional[int], str]] = [("seed0", None, "0"), ("seed1", None, "1"), ("seed2", None, "2"), ("seed4242", None, "4242")]
        variants += [("seedrandom", None, "random")]
        variants += [("dir-orderA", 1, "0"), ("dir-orderB", 2, "0"), ("dir-orderC", 3, "0")]
        # the directory layout (several sub-directories, three file extensions) under other hash seeds: same creation order, same enumeration order
        variants += [("dirseed1", 1, "1"), ("dirseed4242", 1, "4242")]
        if case.get("tier") == "thorough":
            variants += [("seed%d" % s, None, str(s)) for s in (3, 5, 6, 7, 8, 9, 10, 11)]
        for label, order, hs in variants:
            wd = base / label
            lay_out(wd, sdl_defs, query_defs, cfg, order, strategy)
            for rel, text in extra_files.items():
                (wd / rel).write_text(text)
            rc, log = run_generation(wd, strategy, hs, glob_shuffle=(order if order is not None else None))
            out["stats"]["runs"] = out["stats"].get("runs", 0) + 1
            if rc != 0:
                logs[label] = log
                digests[label] = {"__failed__": str(rc)}
                continue
            target = wd / cfg.get("target_package_name", "graphql_client") if strategy == "client" else wd / cfg["target_file_path"]
            digests[label] = digest_tree(target) if target.is_dir() else {target.name: hashlib.sha256(target.read_bytes()).hexdigest()}
        # regenerate over the existing generation (same inputs)
        wd = base / "seed0"
        if "__failed__" not in digests["seed0"]:
            rc, log = run_generation(wd, strategy, "0")
            out["stats"]["runs"] = out["stats"].get("runs", 0) + 1
            target = wd / cfg.get("target_package_name", "graphql_client") if strategy == "client" else wd / cfg["target_file_path"]
            digests["regenerate-over-existing"] = ({"__failed__": str(rc)} if rc != 0 else
                                                   (digest_tree(target) if target.is_dir() else {target.name: hashlib.sha256(target.read_bytes()).hexdigest()}))
        # regenerate over output that an OLDER RELEASE (or a hand edit) left there: every file of the existing target differs from what is generated now and is
        # newer than every input and than the generator's own files - the result must still be what a fresh generation gives
        wd = base / "seed1"
        if "__failed__" not in digests["seed1"] and case["idx"] % 2 == 0:
            target = wd / cfg.get("target_package_name", "graphql_client") if strategy == "client" else wd / cfg["target_file_path"]
            import time as _time
            future = _time.time() + 3600
            for f_ in ([p_ for p_ in sorted(target.rglob("*")) if p_.is_file()] if target.is_dir() else [target]):
                if f_.suffix.lower() in (".py", ".graphql", ".gql", ".graphqls"):
                    f_.write_text(f_.read_text(encoding="utf-8") + "\n# left here by an older release\n", encoding="utf-8")
                os.utime(f_, (future, future))
            rc, log = run_generation(wd, strategy, "1")
            out["stats"]["runs"] = out["stats"].get("runs", 0) + 1
            out["stats"]["regenerations_over_older_output"] = out["stats"].get("regenerations_over_older_output", 0) + 1
            digests["regenerate-over-older-output"] = ({"__failed__": str(rc)} if rc != 0 else
                                                       (digest_tree(target) if target.is_dir() else {target.name: hashlib.sha256(target.read_bytes()).hexdigest()}))
        # ---- what the process did before must not matter: in ONE interpreter, first a decoy project with OTHER inputs under the same relative file names and the
        # same configuration, then the same inputs under a minimal configuration, then the project itself - twice, from the same loaded configuration object,
        # the second time over what the first wrote - as single files and as directories. The trees must equal the ones a fresh interpreter produced.
        if case.get("history") and "__failed__" not in digests["seed0"]:
            def target_of(wd_):
                return wd_ / cfg.get("target_package_name", "graphql_client") if strategy == "client" else wd_ / cfg["target_file_path"]
            steps: List[Dict[str, Any]] = []
            other = cw.build_inputs(dict({k_: v_ for k_, v_ in case.items() if not k_.startswith("_")}, idx=case["idx"] + 7919))
            if other is not None:
                o_spec, _, _ = generate_schema(case["seed"] * 100003 + case["idx"] + 7919, set(case.get("dirty", [])), size=case.get("size", "m"))
                for lab_, order_ in (("decoy-other-single", None), ("decoy-other-dir", 1)):
                    lay_out(base / lab_, o_spec.definitions(), other[1] + other[2], cfg, order_, strategy)
                    for rel, text in extra_files.items():
                        (base / lab_ / rel).write_text(text)
                    steps.append({"dir": str(base / lab_), "strategy": strategy})
            # a thinner schema under the SAME type names (every root type keeps its first field only, the rest is what stays reachable), same configuration: what a
            # generator remembers per type NAME across generations shows when the real schema then reaches more through those names
            from ..genpkg import reduced_sdl
            for thin_ in (False, True, "leaves"):
                thin_sdl = reduced_sdl(sdl, thin=thin_) if not cfg.get("remote_schema_url") else None
                if thin_sdl:
                    lab_ = "decoy-same-names-%s" % (thin_ if isinstance(thin_, str) else ("thin" if thin_ else "part"))
                    lay_out(base / lab_, [d_ for d_ in thin_sdl.split("\n\n") if d_.strip()], ["query VfEarlier { __typename }"], cfg, None, strategy)
                    for rel, text in extra_files.items():
                        (base / lab_ / rel).write_text(text)
                    steps.append({"dir": str(base / lab_), "strategy": strategy})
            minimal = {"target_file_path": cfg["target_file_path"]} if strategy != "client" else {"include_comments": "none"}
            lay_out(base / "decoy-same-minimal", sdl_defs, query_defs, dict(minimal, **({"remote_schema_url": cfg["remote_schema_url"]} if cfg.get("remote_schema_url") else {})), None, strategy)
            steps.append({"dir": str(base / "decoy-same-minimal"), "strategy": strategy})
            for lab_, order_ in (("history-single", None), ("history-dir", 1)):
                lay_out(base / lab_, sdl_defs, query_defs, cfg, order_, strategy)
                for rel, text in extra_files.items():
                    (base / lab_ / rel).write_text(text)
                steps.append({"dir": str(base / lab_), "strategy": strategy, "must": True, "twice": True})
            rc, log = run_history(base, steps, "0", glob_shuffle=1)
            out["stats"]["runs"] = out["stats"].get("runs", 0) + 1
            out["stats"]["history_processes"] = out["stats"].get("history_processes", 0) + 1
            out["stats"]["history_generations"] = out["stats"].get("history_generations", 0) + len(steps) + 2
            feats.add("history.generations_in_one_process")
            out["feats"] = sorted(feats)
            for lab_ in ("history-single", "history-dir"):
                t_ = target_of(base / lab_)
                if rc != 0 and ("STEP-FAILED %s " % (base / lab_)) in log:
                    logs[lab_] = log
                    digests[lab_] = {"__failed__": log[-400:]}
                elif not t_.exists():
                    digests[lab_] = {"__failed__": "no target written: " + log[-300:]}
                else:
                    digests[lab_] = digest_tree(t_) if t_.is_dir() else {t_.name: hashlib.sha256(t_.read_bytes()).hexdigest()}
        if all("__failed__" in d for d in digests.values()):
            out["status"] = "inconclusive"
            out["note"] = "generation fails for this input (C04's concern): " + next(iter(logs.values()))[-300:]
            return out
        groups = {"hash-seed": [k for k in digests if k.startswith("seed")], "file-creation-order": [k for k in digests if k.startswith("dir-")],
                  "hash-seed-directory-layout": ["dir-orderA"] + [k for k in digests if k.startswith("dirseed")],
                  "regenerate": ["seed0", "regenerate-over-existing"] if "regenerate-over-existing" in digests else [],
                  "regenerate-over-older-output": ["seed0", "regenerate-over-older-output"] if "regenerate-over-older-output" in digests else [],
                  "process-history": ["seed0", "history-single"] if "history-single" in digests else [],
                  "process-history-directory-layout": ["dir-orderA", "history-dir"] if "history-dir" in digests else []}
        replay_case = dict(case)
        replay_case["_sdl"] = sdl
        replay_case["_queries"] = "\n\n".join(query_defs)
        for gname, labels in groups.items():
            if len(labels) < 2:
                continue
            ref = digests[labels[0]]
            for lab in labels[1:]:
                out["stats"]["comparisons"] = out["stats"].get("comparisons", 0) + 1
                out["stats"]["files_compared"] = out["stats"].get("files_compared", 0) + len(ref)
                if digests[lab] != ref:
                    differing = sorted(f for f in set(ref) | set(digests[lab]) if ref.get(f) != digests[lab].get(f))
                    detail = "%s: %s vs %s differ in %r" % (gname, labels[0], lab, differing[:6])
                    # show the first differing lines
                    try:
                        f = differing[0]
                        ta = base / labels[0] / (cfg.get("target_package_name", "graphql_client") if strategy == "client" else "") / f
                        tb = base / ({"regenerate-over-existing": "seed0", "regenerate-over-older-output": "seed1"}.get(lab, lab)) / (cfg.get("target_package_name", "graphql_client") if strategy == "client" else "") / f
                        if lab != "regenerate-over-existing" and ta.exists() and tb.exists():  # (for the older-output group: fresh seed0 tree vs what the regeneration left in seed1)
                            import difflib
                            detail += "\n" + "".join(list(difflib.unified_diff(ta.read_text().splitlines(True), tb.read_text().splitlines(True), "a/" + f, "b/" + f, n=1))[:30])
                    except Exception:  # noqa: BLE001
                        pass
                    out["violations"].append(Violation(PROP, "byte-identical-" + gname, detail, sorted(feats), replay_case,
                                                       mech="c10:%s:%s" % (gname, ",".join(sorted({Path(f).name if not Path(f).name[0].isdigit() else f for f in differing}))[:80])).to_json())
                    break
        if out["violations"]:
            out["status"] = "violated"
    finally:
        if endpoint is not None:
            out["stats"]["remote_introspection_requests"] = endpoint.requests
            endpoint.close()
        shutil.rmtree(base, ignore_errors=True)
    return out


def run(tier: str, seed: int) -> int:
    r = core.Run(PROP, tier, seed)
    r.rule = ("seeded inputs biased to set-iteration sites (many fragments on few types, enums, unions, custom scalars, plugin sets) generated by real subprocesses under "
              "PYTHONHASHSEED in {0,1,2,4242,random} (+8 more in thorough), as single files and as directories whose files are created in three shuffled orders with "
              "shuffled mtimes, and regenerated over an existing generation; both strategies, graphqlschema with py and graphql targets; distinct = distinct feature-set")
    r.assumptions = ["sha256 equality of every produced file is byte identity"]
    r.floors = {"runs": 200, "comparisons": 100, "history_processes": 10}
    n = 120 if tier == "thorough" else 40
    cases = []
    for i in range(n):
        strategy = "client" if i % 5 != 4 else "graphqlschema"
        # (overlapping interfaces with inline fragments on them make several abstract types meet in one selection: one more place where sets are iterated)
        kw: Dict[str, Any] = {"strategy": strategy, "tier": tier, "dirty": ["frag.many"] if i % 2 == 0 else (["frag.inline.on_interface"] if i % 8 != 7 else [])}
        if strategy == "client":
            kw["plugins"] = PLUGIN_SETS[i % len(PLUGIN_SETS)]
            kw["comments"] = ["none", "stable"][i % 2]
            if i % 3 == 1:
                kw["scalar_paths"] = ["absolute-own-package", "mixed", "cwd-module"][(i // 3) % 3]
                kw["dirty"] = sorted(set(kw["dirty"]) | {"schema.force_scalar"})
        else:
            kw["target"] = ["schema_out.py", "schema_out.graphql", "schema_out.gql"][i % 3]
        if i % 6 == 3:
            kw["colliding_keys"] = True
        if i % 10 == 9 or i % 12 == 5:
            kw["remote"] = "legacy" if (i // 2) % 2 == 0 else "full"
        c = cw.make_case(seed, i, **kw)
        c["dirty"] = kw["dirty"]
        if strategy == "client" and i % 4 == 2:
            c["cfg"] = dict(c["cfg"], enable_custom_operations=True)  # the builder modules list the schema's types: another ordering that must not depend on set iteration
        c["history"] = (i % 2 == 1) or (i % 4 == 2) or tier == "thorough"
        c["max_doc_chars"] = 20000  # few cases, real subprocesses: larger documents (more set-iteration sites per run) are affordable here
        cases.append(c)
    # fragment usage graphs (gen/fraggraph.py): fragment names in an order unrelated to their dependencies, several bases per fragment, bases reached only through
    # other fragments - where the order of classes and of printed fragments comes out of dependency walks
    for k, c in enumerate(cw.fraggraph_cases(PROP, tier, seed, 60 if tier == "thorough" else 14)):
        c.pop("props", None)
        c.update(strategy="client", plugins=PLUGIN_SETS[k % len(PLUGIN_SETS)], comments=["none", "stable"][k % 2], history=False, cfg={})
        cases.append(c)
    with ThreadPoolExecutor(max_workers=core.WORKERS) as ex:
        for case, res in zip(cases, ex.map(one_case, cases)):
            r.evaluations += 1
            if res["status"] == "held":
                r.held += 1
            elif res["status"] == "inconclusive":
                r.inconclusive += 1
                if res.get("note"):
                    r.notes.append(res["note"])
            for v in res["violations"]:
                r.violations.append(v)
            for k, v in res["stats"].items():
                r.count(k, v)
            r.sets.setdefault("features", set()).update(res["feats"])
            if res["status"] != "inconclusive":
                r.mark_distinct(tuple(res["feats"]))
            if len(r.samples) < 3 and res["status"] != "inconclusive":
                r.samples.append({"strategy": case["strategy"], "plugins": case.get("plugins"), "variants": "5 hash seeds, 3 creation orders, regenerate over existing"})
    return r.finish()


def replay(data) -> int:
    case = dict(data["case"])
    res = one_case(case)
    for v in res["violations"]:
        print(v["clause"], "::", v["detail"][:3000])
    print("replay: %d violation(s)" % len(res["violations"]))
    return 1 if res["violations"] else 0
