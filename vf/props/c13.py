"""C13 - subscriptions follow graphql-transport-ws for every frame sequence.

(a) A scripted fake connection substituted for `ws_connect` in the module namespace of the real
    base clients records connect arguments and every frame sent and feeds a script of server
    frames; a reference state machine computes the expected sends / yields / terminal outcome.
    All sequences up to a bound over the frame alphabet of the statement are enumerated.
(b) A real `websockets` server on 127.0.0.1 speaks the protocol to the unmodified client.
"""
from __future__ import annotations

import asyncio
import datetime
import enum
import itertools
import json
import random
from typing import Any, Dict, List, Optional

from .. import core
from ..deps import load_deps, make_tracer

PROP = "C13"

ERRS = [{"message": "sub failed", "path": ["a"], "extensions": {"code": "E"}}, {"message": "second"}]

# frame kinds named in the statement
ALPHABET = ["ack", "next", "ping", "pong", "complete", "error", "nonjson", "unknown", "missingtype", "next_nodata"]
# extra frame classes, each judged under its own mechanism key
EXTRA = ["json_nonobject", "next_falsy", "error_empty", "error_nopayload", "next_partial"]


class FrameGen:
    def __init__(self):
        self.n = 0

    def make(self, kind: str) -> str:
        self.n += 1
        n = self.n
        if kind == "ack":
            return json.dumps({"type": "connection_ack"} if n % 2 else {"type": "connection_ack", "payload": {"k": n}})
        if kind == "next":
            return json.dumps({"id": "x", "type": "next", "payload": {"data": {"counter": n, "tok": "t#%d" % n}}})
        if kind == "ping":
            return json.dumps({"type": "ping"} if n % 2 else {"type": "ping", "payload": {"p": n}})
        if kind == "pong":
            return json.dumps({"type": "pong"})
        if kind == "complete":
            return json.dumps({"id": "x", "type": "complete"})
        if kind == "error":
            return json.dumps({"id": "x", "type": "error", "payload": ERRS[: 1 + n % 2]})
        if kind == "nonjson":
            return ["not json", "{", "", "{'type': 'next'}"][n % 4]
        if kind == "unknown":
            return json.dumps({"type": ["data", "ka", "start", "NEXT", "connection_error"][n % 5], "payload": {"data": {"a": 1}}})
        if kind == "missingtype":
            return json.dumps([{"payload": {"data": {"a": 1}}}, {}, {"type": None}, {"type": ""}][n % 4])
        if kind == "next_nodata":
            return json.dumps([{"id": "x", "type": "next", "payload": {}}, {"id": "x", "type": "next"},
                               {"id": "x", "type": "next", "payload": {"errors": [{"message": "m"}]}}][n % 3])
        if kind == "error_empty":
            return json.dumps({"id": "x", "type": "error", "payload": []})  # an error frame is an error whatever it lists
        if kind == "error_nopayload":
            return json.dumps({"id": "x", "type": "error"})
        if kind == "json_nonobject":
            return json.dumps([[1], "x", 1, None, True, [{"type": "next"}]][n % 6])
        if kind == "next_partial":
            # a partial result: data next to errors (legal in the protocol - the payload is an execution result), or next to other members; its data is yielded like any other
            extra = [{"errors": [{"message": "partly failed", "path": ["tok"]}]}, {"errors": []}, {"errors": None, "extensions": {"cost": n}}, {"extensions": {"trace": [n]}, "hasNext": True}][n % 4]
            return json.dumps({"id": "x", "type": "next", "payload": dict({"data": {"counter": n, "tok": "t#%d" % n}}, **extra)})
        if kind == "next_falsy":
            return json.dumps({"id": "x", "type": "next", "payload": {"data": [None, {}][n % 2]}})
        raise KeyError(kind)


class ConnClosedOK(Exception):
    pass


class FakeConn:
    def __init__(self, frames: List[str], rng: random.Random):
        self.frames = frames
        self.pos = 0
        self.sent: List[Any] = []
        self.closed = False
        self.close_calls = 0
        self.events: List[str] = []
        self.rng = rng

    async def _maybe_yield(self):
        for _ in range(self.rng.randrange(0, 3)):
            await asyncio.sleep(0)

    async def send(self, message):
        await self._maybe_yield()
        if self.closed:
            raise ConnClosedOK("send after close")
        self.sent.append(message)
        self.events.append("send")

    async def recv(self):
        await self._maybe_yield()
        if self.closed or self.pos >= len(self.frames):
            self.closed = True
            raise ConnClosedOK("recv on closed connection")
        f = self.frames[self.pos]
        self.pos += 1
        self.events.append("recv")
        return f

    def __aiter__(self):
        return self

    async def __anext__(self):
        try:
            return await self.recv()
        except ConnClosedOK:
            raise StopAsyncIteration

    async def close(self, *a, **k):
        self.close_calls += 1
        self.closed = True


class FakeConnect:
    """Stands in for websockets.connect: callable -> async context manager; records arguments."""

    def __init__(self, frames, rng):
        self.conn = FakeConn(frames, rng)
        self.calls: List[Any] = []

    def __call__(self, *args, **kwargs):
        self.calls.append((args, kwargs))
        outer = self

        class _CM:
            async def __aenter__(self_inner):
                return outer.conn

            async def __aexit__(self_inner, *exc):
                outer.conn.closed = True
                return False

        return _CM()


def reference(kinds: List[str], frames: List[str]):
    """Reference state machine -> dict(sends, yields, falsy (flags per yield), outcome, terminal (kind that ended it))."""
    sends = ["init"]
    yields: List[Any] = []
    falsy: List[bool] = []

    def res(outcome, terminal=None):
        return dict(sends=sends, yields=yields, falsy=falsy, outcome=outcome, terminal=terminal)

    if not kinds:
        return res(("unspecified", None))
    k0 = kinds[0]
    if k0 != "ack":
        return res(("invalid", None), k0)
    sends.append("subscribe")
    for k, f in zip(kinds[1:], frames[1:]):
        if k == "ack":
            # a second ack is not addressed by the statement: stop judging here (prefix already checked)
            return res(("unspecified", None), k)
        if k in ("next", "next_falsy", "next_partial"):
            yields.append(json.loads(f)["payload"]["data"])
            falsy.append(k == "next_falsy")
        elif k == "ping":
            sends.append("pong")
        elif k == "pong":
            pass
        elif k == "complete":
            return res(("end", None), k)
        elif k in ("error", "error_empty", "error_nopayload"):
            return res(("multi", json.loads(f).get("payload", [])), k)
        elif k in ("nonjson", "unknown", "missingtype", "next_nodata", "json_nonobject"):
            return res(("invalid", None), k)
    return res(("end", None))


class Color(str, enum.Enum):
    RED = "RED"


def variable_variants(deps):
    from pydantic import Field

    BM = deps.base_model.BaseModel
    UNSET = deps.base_model.UNSET

    class Inner(BM):
        some_value: Optional[int] = Field(alias="someValue", default=None)
        color: Optional[Color] = None

    class Outer(BM):
        inner_list: List[Inner] = Field(alias="innerList")
        name_: Optional[str] = Field(alias="name", default=None)

    return [
        ("none", None, None),
        ("empty", {}, {}),
        ("plain", {"a": 1, "b": "x", "c": [1, None], "d": None}, {"a": 1, "b": "x", "c": [1, None], "d": None}),
        ("unset+model", {"u": UNSET, "m": Outer(innerList=[Inner(someValue=3), Inner(color=Color.RED)]), "l": [Inner(someValue=None)], "n": None},
         {"m": {"innerList": [{"someValue": 3}, {"color": "RED"}]}, "l": [{"someValue": None}], "n": None}),
        ("all-unset", {"u": UNSET}, {}),
        ("long-query", {"a": 1}, {"a": 1}),  # with a document of ~14k characters (see query_for)
    ]


QUERY = "subscription S($a: Int) { counter(a: $a) }"
LONG_QUERY = "subscription S($a: Int) { " + " ".join("alias%d: counter(a: $a)" % i for i in range(450)) + " }"


def query_for(var_variant) -> str:
    """Most scripts use the short document; the `long-query` variant a document far longer than any attribute limit a tracing backend imposes."""
    return LONG_QUERY if var_variant[0] == "long-query" else QUERY


_HTTP = None


def shared_http_client():
    """httpx.AsyncClient() builds an SSL context (~30 ms); the ws path never touches it, so share one."""
    global _HTTP
    if _HTTP is None:
        import httpx
        _HTTP = httpx.AsyncClient(transport=httpx.MockTransport(lambda req: httpx.Response(500)))
    return _HTTP


async def run_script(deps, variant: str, kinds: List[str], frames: List[str], init_payload, var_variant, rng, connect_kwargs=None):
    mod = deps.modules["async_otel" if variant.startswith("otel") else "async"]
    cls = deps.clients["async_otel" if variant.startswith("otel") else "async"]
    tracer = make_tracer() if variant == "otel+tracer" else None
    kw: Dict[str, Any] = dict(ws_url="ws://example.test/graphql", ws_headers={"Authorization": "Bearer t", "X-A": "1"},
                              ws_origin="https://origin.test", ws_connection_init_payload=init_payload)
    if variant.startswith("otel"):
        kw["tracer"] = tracer
    kw["http_client"] = shared_http_client()
    client = cls(**kw)
    fake = FakeConnect(frames, rng)
    saved = mod.ws_connect
    mod.ws_connect = fake
    yields = []
    outcome = ("end", None)
    try:
        try:
            async for d in client.execute_ws(query_for(var_variant), "S", var_variant[1], **(connect_kwargs or {})):
                yields.append(d)
        except deps.exceptions.GraphQLClientInvalidMessageFormat as e:
            outcome = ("invalid", e) if type(e) is deps.exceptions.GraphQLClientInvalidMessageFormat else ("other", repr(e))
        except deps.exceptions.GraphQLClientGraphQLMultiError as e:
            outcome = ("multi", e)
        except BaseException as e:  # noqa: BLE001
            outcome = ("other", "%s: %s" % (type(e).__name__, e))
    finally:
        mod.ws_connect = saved
    return dict(yields=yields, outcome=outcome, fake=fake, tracer=tracer)


def judge(deps, variant, kinds, frames, init_payload, var_variant, obs, extra_headers=None):
    """-> list of (clause, detail, mech)"""
    ref = reference(kinds, frames)
    out = []
    fake = obs["fake"]

    def bad(clause, detail, mech=None):
        out.append((clause, detail, mech or ("ws:" + clause)))

    # connect arguments
    if len(fake.calls) != 1:
        bad("connect-once", "ws_connect called %d times" % len(fake.calls))
    else:
        args, kwargs = fake.calls[0]
        if list(args) != ["ws://example.test/graphql"]:
            bad("connect-url", "args=%r" % (args,))
        if [str(s) for s in kwargs.get("subprotocols", [])] != ["graphql-transport-ws"]:
            bad("connect-subprotocol", "subprotocols=%r" % (kwargs.get("subprotocols"),))
        if str(kwargs.get("origin")) != "https://origin.test":
            bad("connect-origin", "origin=%r" % (kwargs.get("origin"),))
        want_headers = {"Authorization": "Bearer t", "X-A": "1"}
        want_headers.update(extra_headers or {})
        hdrs = kwargs.get("extra_headers", kwargs.get("additional_headers"))
        if hdrs != want_headers:
            bad("connect-headers", "headers=%r expected %r" % (hdrs, want_headers))
    # sends
    sent = []
    for m in fake.conn.sent:
        try:
            sent.append(json.loads(m))
        except Exception:  # noqa: BLE001
            sent.append({"unparsable": repr(m)})
    kinds_sent = []
    for i, s in enumerate(sent):
        t = s.get("type") if isinstance(s, dict) else None
        kinds_sent.append({"connection_init": "init", "subscribe": "subscribe", "pong": "pong"}.get(t, "?%r" % (t,)))
    want_sends = ref["sends"]
    unspecified = ref["outcome"][0] == "unspecified"
    if unspecified:
        if kinds_sent[: len(want_sends)] != want_sends:
            bad("sends", "sent %r expected prefix %r" % (kinds_sent, want_sends))
    elif kinds_sent != want_sends:
        bad("sends", "sent %r expected %r for frames %r" % (kinds_sent, want_sends, kinds))
    if sent:
        init = sent[0]
        want_init = {"type": "connection_init"}
        if init_payload:
            want_init["payload"] = init_payload
        if init != want_init and not (not init_payload and init == {"type": "connection_init", "payload": init_payload}):
            bad("init-frame", "init frame %r expected %r" % (init, want_init))
    subs = [s for s in sent if isinstance(s, dict) and s.get("type") == "subscribe"]
    if subs:
        s = subs[0]
        p = s.get("payload", {})
        if not isinstance(s.get("id"), str) or not s.get("id"):
            bad("subscribe-id", "id=%r" % (s.get("id"),))
        if p.get("query") != query_for(var_variant) or p.get("operationName") != "S":
            bad("subscribe-payload", "payload=%s" % (repr(p)[:600],))
        want_vars = var_variant[2]
        got_vars = p.get("variables")
        if not ((want_vars in (None, {}) and got_vars in (None, {})) or got_vars == want_vars):
            bad("subscribe-variables", "variables=%r expected %r" % (got_vars, want_vars))
        extra = set(p) - {"query", "operationName", "variables", "extensions"}
        if extra:
            bad("subscribe-payload-keys", "unexpected keys %r" % (extra,))
    for s in sent:
        if isinstance(s, dict) and s.get("type") == "pong" and set(s) - {"type", "payload"}:
            bad("pong-frame", repr(s))
    # yields
    if unspecified:
        if obs["yields"][: len(ref["yields"])] != ref["yields"]:
            truthy_only = [y for y, fz in zip(ref["yields"], ref["falsy"]) if not fz]
            mech = "ws-next-falsy-data" if (any(ref["falsy"]) and obs["yields"][: len(truthy_only)] == truthy_only) else None
            bad("yields", "yielded %r expected prefix %r" % (obs["yields"], ref["yields"]), mech)
    else:
        if obs["yields"] != ref["yields"]:
            truthy_only = [y for y, fz in zip(ref["yields"], ref["falsy"]) if not fz]
            mech = "ws-next-falsy-data" if (any(ref["falsy"]) and obs["yields"] == truthy_only) else None
            bad("yields", "yielded %r expected %r for frames %r" % (obs["yields"], ref["yields"], kinds), mech)
        okind, oval = obs["outcome"]
        wkind, wval = ref["outcome"]
        if okind != wkind:
            mech = None
            if ref["terminal"] == "json_nonobject" and okind == "other" and str(oval).startswith("AttributeError"):
                mech = "ws-json-nonobject"
            bad("outcome", "terminal outcome %r (%s) expected %r for frames %r" % (okind, oval if okind == "other" else "", wkind, kinds), mech)
        elif okind == "multi":
            if [e.message for e in oval.errors] != [e["message"] for e in wval] or [e.original for e in oval.errors] != wval:
                bad("outcome-errors", "errors %r expected %r" % ([e.original for e in oval.errors], wval))
    tr = obs.get("tracer")
    if tr is not None and tr.open_spans():
        bad("spans-closed", "spans left open or closed twice: %r" % (tr.open_spans(),))
    return out


def configs(deps):
    vv = variable_variants(deps)
    return [(variant, ip, v) for variant in ("plain", "otel", "otel+tracer")
            for ip in (None, {"token": "abc", "n": [1, 2]}) for v in vv]


async def enumerate_sequences(r: core.Run, deps, max_len: int, full_product_len: int, seed: int):
    rng = random.Random(seed)
    cfgs = configs(deps)
    idx = 0
    for extra_on in (False, True):
        alphabet = ALPHABET + (EXTRA if extra_on else [])
        for n in range(0, max_len + 1):
            if extra_on and n > min(max_len, 3):
                continue
            for kinds in itertools.product(alphabet, repeat=n):
                if extra_on and not (set(kinds) & set(EXTRA)):
                    continue
                kinds = list(kinds)
                chosen = cfgs if n <= full_product_len and not extra_on else [cfgs[idx % len(cfgs)], cfgs[(idx * 7 + 3) % len(cfgs)]]
                idx += 1
                for variant, ip, vv in chosen:
                    fg = FrameGen()
                    fg.n = rng.randrange(0, 12)
                    frames = [fg.make(k) for k in kinds]
                    obs = await run_script(deps, variant, kinds, frames, ip, vv, rng)
                    probs = judge(deps, variant, kinds, frames, ip, vv, obs)
                    r.evaluations += 1
                    r.count("variant." + variant)
                    r.count("len.%d" % n)
                    r.count("outcome." + obs["outcome"][0])
                    r.count("yields", len(obs["yields"]))
                    r.count("frames_sent", len(obs["fake"].conn.sent))
                    r.sets.setdefault("send_signatures", set()).add(",".join(json.loads(m).get("type", "?") if m.startswith("{") else "?" for m in obs["fake"].conn.sent))
                    r.sets.setdefault("event_orders", set()).add("".join(e[0] for e in obs["fake"].conn.events))
                    r.mark_distinct(tuple(kinds))
                    if not probs:
                        r.held += 1
                    for clause, detail, mech in probs:
                        r.add_violation(core.Violation(PROP, clause, "variant=%s init_payload=%r vars=%s: %s" % (variant, ip, vv[0], detail),
                                                       features=["ws." + k for k in sorted(set(kinds))],
                                                       case={"kind": "script", "variant": variant, "kinds": kinds, "frames": frames,
                                                             "init_payload": ip, "vars": vv[0]}, mech=mech))


async def kwargs_cases(r: core.Run, deps, seed):
    """extra kwargs / extra headers passed by the caller reach the connect call, caller headers winning."""
    rng = random.Random(seed)
    vv = variable_variants(deps)[2]
    for variant in ("plain", "otel", "otel+tracer"):
        kinds = ["ack", "next", "complete"]
        fg = FrameGen()
        frames = [fg.make(k) for k in kinds]
        eh = {"X-A": "override", "X-New": "n"}
        obs = await run_script(deps, variant, kinds, frames, None, vv, rng, connect_kwargs={"extra_headers": eh, "open_timeout": 3})
        probs = judge(deps, variant, kinds, frames, None, vv, obs, extra_headers=eh)
        if obs["fake"].calls and obs["fake"].calls[0][1].get("open_timeout") != 3:
            probs.append(("connect-kwargs", "open_timeout not passed through", "ws:connect-kwargs"))
        r.evaluations += 1
        r.count("kwargs_cases")
        if not probs:
            r.held += 1
        for clause, detail, mech in probs:
            r.add_violation(core.Violation(PROP, clause, "variant=%s: %s" % (variant, detail), case={"kind": "kwargs", "variant": variant}, mech=mech))


async def history_cases(r: core.Run, deps, seed):
    """Several subscriptions one after another on ONE client, each with its own extra headers: every connect call must carry the client's
    headers merged with that call's own (nothing left over from earlier calls), and neither the client's nor the caller's dicts may change."""
    import copy

    rng = random.Random(seed)
    vv = variable_variants(deps)[2]
    for variant in ("plain", "otel", "otel+tracer"):
        mod = deps.modules["async_otel" if variant.startswith("otel") else "async"]
        cls = deps.clients["async_otel" if variant.startswith("otel") else "async"]
        base_headers = {"Authorization": "Bearer t", "X-A": "1"}
        kw: Dict[str, Any] = dict(ws_url="ws://example.test/graphql", ws_headers=base_headers, ws_origin="https://origin.test", http_client=shared_http_client())
        if variant == "otel+tracer":
            kw["tracer"] = make_tracer()
        client = cls(**kw)
        calls = [{"X-Call": "one", "X-A": "override-1"}, {}, {"X-Other": "two"}, None, {"X-Call": "four"}]
        saved = mod.ws_connect
        try:
            for i, eh in enumerate(calls):
                kinds = ["ack", "next", "complete"]
                fg = FrameGen()
                frames = [fg.make(k) for k in kinds]
                fake = FakeConnect(frames, rng)
                mod.ws_connect = fake
                caller = copy.deepcopy(eh)
                extra = {} if eh is None else {"extra_headers": eh}
                got = []
                async for d in client.execute_ws(QUERY, "S", vv[1], **extra):
                    got.append(d)
                r.evaluations += 1
                r.count("history_subscriptions")
                want = dict(base_headers)
                want.update(caller or {})
                hdrs = fake.calls[0][1].get("extra_headers", fake.calls[0][1].get("additional_headers")) if fake.calls else None
                ok = True
                if hdrs != want:
                    ok = False
                    r.add_violation(core.Violation(PROP, "connect-headers", "variant=%s subscription #%d on one client: headers %r expected %r (earlier calls used %r)" % (
                        variant, i, hdrs, want, calls[:i]), ["ws.history"], {"kind": "history", "variant": variant}, mech="ws:history-headers"))
                if eh != caller:
                    ok = False
                    r.add_violation(core.Violation(PROP, "caller-headers-untouched", "variant=%s: the caller's extra_headers changed from %r to %r" % (variant, caller, eh),
                                                   ["ws.history"], {"kind": "history", "variant": variant}, mech="ws:history-caller-mutated"))
                if ok:
                    r.held += 1
            if client.ws_headers != {"Authorization": "Bearer t", "X-A": "1"}:
                r.add_violation(core.Violation(PROP, "client-headers-untouched", "variant=%s: client.ws_headers became %r" % (variant, client.ws_headers), ["ws.history"],
                                               {"kind": "history", "variant": variant}, mech="ws:history-client-mutated"))
        finally:
            mod.ws_connect = saved


async def nonnative_variables(r: core.Run, deps, seed):
    """Variables whose leaves need pydantic's JSON conversion (datetime) - the HTTP path handles them."""
    rng = random.Random(seed)
    for variant in ("plain", "otel", "otel+tracer"):
        kinds = ["ack", "next", "complete"]
        fg = FrameGen()
        frames = [fg.make(k) for k in kinds]
        vv = ("datetime", {"when": datetime.datetime(2020, 1, 2, 3, 4, 5)}, {"when": "2020-01-02T03:04:05"})
        obs = await run_script(deps, variant, kinds, frames, None, vv, rng)
        probs = judge(deps, variant, kinds, frames, None, vv, obs)
        r.evaluations += 1
        r.count("nonnative_variable_cases")
        if not probs:
            r.held += 1
        for clause, detail, mech in probs:
            r.add_violation(core.Violation(PROP, clause, "variant=%s datetime variable: %s" % (variant, detail),
                                           features=["ws.vars_non_json_native"], case={"kind": "datetime-var", "variant": variant},
                                           mech="ws-variables-not-json-native"))


# ------------------------------------------------------------------ real server


async def real_server(r: core.Run, deps, adapter: bool):
    import websockets
    from websockets.asyncio.server import serve

    seen: Dict[str, Any] = {"frames": []}

    async def handler(ws):
        seen["subprotocol"] = ws.subprotocol
        seen["headers"] = dict(ws.request.headers)
        try:
            m = json.loads(await ws.recv())
            seen["frames"].append(m)
            if m.get("type") != "connection_init":
                await ws.close(4400, "bad")
                return
            await ws.send(json.dumps({"type": "connection_ack"}))
            m = json.loads(await ws.recv())
            seen["frames"].append(m)
            sid = m.get("id")
            await ws.send(json.dumps({"id": sid, "type": "next", "payload": {"data": {"counter": 1}}}))
            await ws.send(json.dumps({"type": "ping"}))
            m = json.loads(await ws.recv())
            seen["frames"].append(m)
            await ws.send(json.dumps({"id": sid, "type": "next", "payload": {"data": {"counter": 2}}}))
            await ws.send(json.dumps({"id": sid, "type": "complete"}))
            try:
                await asyncio.wait_for(ws.wait_closed(), 5)
            except asyncio.TimeoutError:
                pass
        except websockets.ConnectionClosed:
            pass

    results = []
    async with serve(handler, "127.0.0.1", 0, subprotocols=["graphql-transport-ws"]) as server:
        port = server.sockets[0].getsockname()[1]
        for variant in ("plain", "otel", "otel+tracer"):
            seen.clear()
            seen["frames"] = []
            mod = deps.modules["async_otel" if variant.startswith("otel") else "async"]
            cls = deps.clients["async_otel" if variant.startswith("otel") else "async"]
            kw = dict(ws_url="ws://127.0.0.1:%d/graphql" % port, ws_headers={"Authorization": "Bearer t"}, ws_origin="http://127.0.0.1",
                      ws_connection_init_payload={"token": "x"})
            if variant == "otel+tracer":
                kw["tracer"] = make_tracer()
            kw["http_client"] = shared_http_client()
            client = cls(**kw)
            saved = mod.ws_connect
            if adapter:
                real = saved

                def adapted(*a, __real=real, **k):
                    if "extra_headers" in k:
                        k["additional_headers"] = k.pop("extra_headers")
                    return __real(*a, **k)

                mod.ws_connect = adapted
            yields = []
            outcome = "end"
            try:
                async def go():
                    async for d in client.execute_ws(QUERY, "S", {"a": 1}):
                        yields.append(d)
                await asyncio.wait_for(go(), 20)
            except asyncio.TimeoutError:
                outcome = "watchdog"
            except BaseException as e:  # noqa: BLE001
                outcome = "%s: %s" % (type(e).__name__, e)
            finally:
                mod.ws_connect = saved
            results.append((variant, outcome, yields, dict(seen)))
    for variant, outcome, yields, s in results:
        r.evaluations += 1
        r.count("real_server_runs" + ("_adapter" if adapter else ""))
        if outcome == "watchdog":
            r.inconclusive += 1
            r.notes.append("real server run hit the watchdog")
            continue
        problems = []
        if outcome != "end":
            problems.append(("real-handshake", "iterator ended with %s" % outcome))
        else:
            if yields != [{"counter": 1}, {"counter": 2}]:
                problems.append(("real-yields", repr(yields)))
            if s.get("subprotocol") != "graphql-transport-ws":
                problems.append(("real-subprotocol", repr(s.get("subprotocol"))))
            h = {k.lower(): v for k, v in (s.get("headers") or {}).items()}
            if h.get("authorization") != "Bearer t" or h.get("origin") != "http://127.0.0.1":
                problems.append(("real-headers", repr(h)))
            types = [f.get("type") for f in s.get("frames", [])]
            if types != ["connection_init", "subscribe", "pong"]:
                problems.append(("real-frames", repr(types)))
            elif s["frames"][0].get("payload") != {"token": "x"} or s["frames"][1]["payload"].get("variables") != {"a": 1}:
                problems.append(("real-frame-payloads", repr(s["frames"])))
        if not problems:
            r.held += 1
            r.count("real_server_handshakes_ok")
        for clause, detail in problems:
            mech = "ws-real-server-extra-headers" if (not adapter and "extra_headers" in detail) else "ws:" + clause
            r.add_violation(core.Violation(PROP, clause, "variant=%s adapter=%s: %s" % (variant, adapter, detail), features=["ws.real_server"],
                                           case={"kind": "real", "variant": variant, "adapter": adapter}, mech=mech))


async def amain(r, tier, seed):
    deps = load_deps()
    thorough = tier == "thorough"
    await enumerate_sequences(r, deps, max_len=5 if thorough else 4, full_product_len=3 if thorough else 2, seed=seed)
    await kwargs_cases(r, deps, seed)
    await history_cases(r, deps, seed)
    await nonnative_variables(r, deps, seed)
    await real_server(r, deps, adapter=False)
    await real_server(r, deps, adapter=True)


def run(tier: str, seed: int) -> int:
    r = core.Run(PROP, tier, seed, level="fault_enumeration")
    r.rule = ("every sequence of server frames up to the length bound over the 10 frame kinds of the statement (plus two extra frame classes "
              "up to length 3), each run against the real execute_ws of the plain and OpenTelemetry clients through a scripted connection; "
              "config (client variant x init payload x variables) is the full product for short sequences and rotated for the longest; "
              "distinct = distinct frame-kind sequence; plus real websockets server on loopback")
    r.assumptions = ["the scripted connection follows websockets' observable contract (recv/iteration in order, iteration ends after close)",
                     "a second connection_ack after the first is outside the statement (judged on the prefix only)"]
    asyncio.run(amain(r, tier, seed))
    fg = FrameGen()
    r.samples = [{"kinds": k, "frames": [fg.make(x) for x in k], "expected": reference(k, [FrameGen().make(x) for x in k])}
                 for k in (["ack", "next", "ping", "complete"], ["ping"], ["ack", "error", "next"], ["ack", "next", "nonjson"])]
    r.exhaustive = True
    r.floors = {"outcome.end": 100, "outcome.invalid": 100, "outcome.multi": 50, "real_server_runs": 3, "real_server_runs_adapter": 3}
    return r.finish()


def replay(data) -> int:
    deps = load_deps()
    case = data["case"]
    r = core.Run(PROP, "quick", 0, level="fault_enumeration")

    async def go():
        if case["kind"] == "script":
            vv = [v for v in variable_variants(deps) if v[0] == case["vars"]][0]
            obs = await run_script(deps, case["variant"], case["kinds"], case["frames"], case["init_payload"], vv, random.Random(0))
            for p in judge(deps, case["variant"], case["kinds"], case["frames"], case["init_payload"], vv, obs):
                print(p)
                r.violations.append(p)
            print("sent:", obs["fake"].conn.sent, "\nyields:", obs["yields"], "\noutcome:", obs["outcome"])
        elif case["kind"] == "real":
            await real_server(r, deps, adapter=case["adapter"])
            for v in r.violations:
                print(v["clause"], v["detail"])
        elif case["kind"] == "history":
            await history_cases(r, deps, 0)
            for v in r.violations:
                print(v["clause"], v["detail"])
        elif case["kind"] == "datetime-var":
            await nonnative_variables(r, deps, 0)
            for v in r.violations:
                print(v["clause"], v["detail"])
    asyncio.run(go())
    print("replay: %d violation(s)" % len(r.violations))
    return 1 if r.violations else 0
