"""C07 - custom scalars are parsed and serialised exactly once per occurrence.

Instrumented parse/serialize functions are shipped into the generated package through files_to_include
(exactly the documented route); every call appends to a log.  Raw response values and argument values are
unique tokens, so 'exactly once per non-null occurrence, never for null/omitted' is a multiset comparison.
"""
from __future__ import annotations

import datetime
import json
import random
import sys
import warnings
from typing import Any, Dict, List

from .. import core, oracles
from ..core import CaseResult, Violation
from . import _clientworld as cw

PROP = "C07"

CSM_HEADER = '''"""Instrumented custom scalar implementations (shipped by the verification harness via files_to_include)."""
CALLS = []


class Tok:
    def __init__(self, raw):
        self.raw = raw

    def __eq__(self, other):
        return type(other) is type(self) and other.raw == self.raw

    def __hash__(self):
        return hash(("Tok", self.raw))

    def __repr__(self):
        return "%s(%r)" % (type(self).__name__, self.raw)

    def __bool__(self):
        # like datetime.timedelta(0) or Decimal(0): a perfectly good value that is falsy
        return not str(self.raw).endswith(("0", "5"))

'''

CSM_PER_SCALAR = '''
class Tok{i}(Tok):
    pass


def parse_tok{i}(value):
    CALLS.append(("parse", {i}, repr(value)))
    return Tok{i}(value)


def serialize_tok{i}(value):
    CALLS.append(("serialize", {i}, repr(value)))
    return "ser{i}:" + str(getattr(value, "raw", value))


class Ctor{i}(Tok):
    """A type whose constructor is configured as the parse function (type == parse)."""

    def __init__(self, raw):
        CALLS.append(("parse", {i}, repr(raw)))
        super().__init__(raw)


def parse_str{i}(value):
    CALLS.append(("parse", {i}, repr(value)))
    return "P{i}:" + str(value)


def serialize_str{i}(value):
    CALLS.append(("serialize", {i}, repr(value)))
    return "S{i}:" + str(value)


def parse_shared{i}(value):
    CALLS.append(("parse", {i}, repr(value)))
    return SHARED(value)


def serialize_shared{i}(value):
    CALLS.append(("serialize", {i}, repr(value)))
    return "ser{i}:" + str(getattr(value, "raw", value))
'''

# one Python class shared by several GraphQL scalars, and called like one of them (scalar Decimal -> decimal.Decimal next to scalar Money -> decimal.Decimal)
CSM_SHARED = '''

class {name}(Tok):
    pass


SHARED = {name}
'''

VARIANTS = ["both", "parse_str", "serialize_str", "native_datetime", "deprecated_import", "unconfigured", "both", "ctor_parse"]


def scalar_config(i: int, variant: str, shared_name: str = "Shared") -> Dict[str, str]:
    if variant == "both":
        return {"type": ".csm.Tok%d" % i, "parse": ".csm.parse_tok%d" % i, "serialize": ".csm.serialize_tok%d" % i}
    if variant == "parse_str":
        return {"type": "str", "parse": ".csm.parse_str%d" % i}
    if variant == "serialize_str":
        return {"type": "str", "serialize": ".csm.serialize_str%d" % i}
    if variant == "native_datetime":
        return {"type": "datetime.datetime"}
    if variant == "ctor_parse":
        return {"type": ".csm.Ctor%d" % i, "parse": ".csm.Ctor%d" % i, "serialize": ".csm.serialize_tok%d" % i}
    if variant == "shared_cls":
        return {"type": ".csm.%s" % shared_name, "parse": ".csm.parse_shared%d" % i, "serialize": ".csm.serialize_shared%d" % i}
    if variant == "deprecated_import":
        return {"type": "Tok%d" % i, "parse": "parse_tok%d" % i, "serialize": "serialize_tok%d" % i, "import": ".csm"}
    raise KeyError(variant)


def worker(case: Dict[str, Any]) -> CaseResult:
    from graphql import GraphQLScalarType, OperationDefinitionNode, get_named_type, parse, type_from_ast

    from ..genpkg import RefServer, call_method, find_methods, import_package, make_client, patched_ws, probe_param_map, run_cli, write_case
    from ..values import OMIT, ValueGen, python_args, strip_omit
    from ..world import World

    stats: Dict[str, Any] = {}
    violations: List[Violation] = []

    def count(k, n=1):
        stats[k] = stats.get(k, 0) + n

    built = cw.build_inputs(case)
    if built is None:
        return CaseResult("inconclusive", note="generator could not produce a valid schema/document", stats={"gen_invalid": 1})
    sdl, frs, ops, names, feats, schema_ref = built
    feats = set(cw.case_features(case, feats))
    rng = random.Random(case["seed"] * 19 + case["idx"])
    uploads = False
    if case.get("upload") and "Upload" not in schema_ref.type_map:
        # one custom scalar becomes the bundled Upload: calls carrying a file travel as multipart, where the other scalars' values must be
        # serialised exactly as on the JSON route
        import re as _re

        from graphql import build_schema
        customs = sorted(n for n, t in schema_ref.type_map.items() if isinstance(t, GraphQLScalarType) and n not in oracles.BUILTIN)
        if len(customs) >= 2:
            pat = _re.compile(r"\b%s\b" % _re.escape(customs[-1]))
            sdl = pat.sub("Upload", sdl)
            frs = [pat.sub("Upload", x) for x in frs]
            ops = [pat.sub("Upload", x) for x in ops]
            schema_ref = build_schema(sdl)
    uploads = "Upload" in schema_ref.type_map
    if uploads:
        feats.add("scalar.upload")
    scalars = sorted(n for n, t in schema_ref.type_map.items() if isinstance(t, GraphQLScalarType) and n not in oracles.BUILTIN and n != "Upload")
    if scalars and not case.get("_sdl") and case["idx"] % 2 == 1:
        # one more root field taking every custom scalar as a required argument, and an operation passing them all as variables: every configured
        # scalar then occurs among one method's variables, whatever the random operations happened to use
        import re as _re

        from graphql import build_schema as _bs
        qname = schema_ref.query_type.name
        args_ = ", ".join("a%d: %s!" % (k, n) for k, n in enumerate(scalars))
        opt_args_ = ", ".join("o%d: %s" % (k, n) for k, n in enumerate(scalars))  # optional ones the operations never pass; the operation builder probe does
        # ... and an input object holding every scalar (plain and in a list), taken by a query field and - where the schema has subscriptions and the
        # client is asynchronous - by a subscription field: nested occurrences on the HTTP and on the websocket route
        in_def = "input VfScalarIn {\n%s}\n" % "".join("  s%d: %s!\n  l%d: [%s!]\n" % (k, n, k, n) for k, n in enumerate(scalars))
        sdl_new = _re.sub(r"(type %s[^{]*\{\n)" % _re.escape(qname), lambda m_: m_.group(1) + "  vfTakeScalars(%s, %s): [%s]\n  vfTakeInput(inp: VfScalarIn!): Int\n" % (args_, opt_args_, scalars[0]), sdl, count=1)
        sub_t = schema_ref.subscription_type
        with_sub = sub_t is not None and case["cfg"].get("async_client", True)
        if with_sub:
            sdl_new = _re.sub(r"(type %s[^{]*\{\n)" % _re.escape(sub_t.name), lambda m_: m_.group(1) + "  vfWatchInput(inp: VfScalarIn!): Int\n", sdl_new, count=1)
        if sdl_new != sdl:
            try:
                schema_ref = _bs(sdl_new + "\n" + in_def)
                sdl = sdl_new + "\n" + in_def
                ops = list(ops) + ["query VfTakeScalars(%s) { vfTakeScalars(%s) }" % (", ".join("$a%d: %s!" % (k, n) for k, n in enumerate(scalars)),
                                                                                          ", ".join("a%d: $a%d" % (k, k) for k in range(len(scalars)))),
                                   "query VfTakeInput($inp: VfScalarIn!) { vfTakeInput(inp: $inp) }"]
                names = list(names) + ["VfTakeScalars", "VfTakeInput"]
                if with_sub:
                    ops.append("subscription VfWatchInput($inp: VfScalarIn!) { vfWatchInput(inp: $inp) }")
                    names.append("VfWatchInput")
                feats.add("scalar.all_as_variables_probe")
            except Exception:  # noqa: BLE001
                pass
    if not scalars:
        return CaseResult("inconclusive", note="schema without custom scalars", stats={"no_custom_scalars": 1})
    variant_of = {n: VARIANTS[(case["idx"] + i) % len(VARIANTS)] for i, n in enumerate(scalars)}
    if len(scalars) >= 2 and case["idx"] % 7 in (3, 5):
        # several GraphQL scalars sharing one Python type, each with its own functions
        # (serialize-only for one residue, parse-only for the other: each function must still be imported and called for its own scalar)
        variant_of = {n: ("serialize_str" if case["idx"] % 7 == 3 else ("parse_str" if case["idx"] % 14 == 5 else "shared_cls")) for n in scalars}
    if uploads and case["idx"] % 8 == 2:
        # pydantic-native values next to files: the multipart route has to serialise them like the JSON route does
        variant_of = {n: "native_datetime" for n in scalars}
    index_of = {n: i for i, n in enumerate(scalars)}
    shared_name = scalars[-1]
    csm = CSM_HEADER + CSM_SHARED.format(name=shared_name) + "".join(CSM_PER_SCALAR.format(i=i) for i in range(len(scalars)))
    cfg_full = {k: v for k, v in case["cfg"].items() if not k.startswith("_")}
    cfg_full["scalars"] = {n: scalar_config(index_of[n], v, shared_name) for n, v in variant_of.items() if v != "unconfigured"}
    for n, v in variant_of.items():
        feats.add("scalar.config." + v)
    queries = "\n\n".join(frs + ops)
    authored = parse(queries)
    replay_case = dict(case)
    replay_case["_sdl"] = sdl
    replay_case["_queries"] = queries
    replay_case["_scalars"] = variant_of
    with core.Scratch() as root:
        (root / "csm.py").write_text(csm)
        cfg_full["files_to_include"] = [str(root / "csm.py")]
        cfg = write_case(root, sdl, queries, cfg_full)
        if case["idx"] % 5 == 1 and not case.get("config_rel"):
            from ..genpkg import plant_stale_bundled_copies
            stats["stale_bundled_copies_planted"] = plant_stale_bundled_copies(root, cfg)  # the target holds another release's copies: they must be replaced
        if case["idx"] % 3 == 0:
            # something was generated in this interpreter before: the same inputs with nothing configured
            from ..genpkg import DECOY_KINDS, decoy_generations
            stats["decoy_generations_before"] = decoy_generations(root, sdl, queries, kind=DECOY_KINDS[(case["idx"] // 3) % 4])
        with warnings.catch_warnings():
            warnings.simplefilter("ignore")
            gen = run_cli(root, "client", cfg)
        if not gen.ok:
            violations.append(Violation(PROP, "generation-with-scalars", "generation with scalar configuration %r failed: %s: %s\n%s" % (
                cfg_full["scalars"], gen.exc_type, str(gen.exception)[:300], gen.traceback[-800:]), sorted(feats), replay_case, mech="c07:generation:" + gen.exc_type))
            return CaseResult("violated", [v.to_json() for v in violations], stats, {"features": sorted(feats)})
        try:
            pkg = import_package(root, cfg.get("target_package_name", "graphql_client"))
            errs = cw.import_all_modules(pkg, gen.package_dir)
        except BaseException as e:  # noqa: BLE001
            errs = [("package", "%s: %s" % (type(e).__name__, str(e)[:400]))]
        if errs:
            violations.append(Violation(PROP, "imports-emitted", "scalar configuration %r: %r" % (cfg_full["scalars"], errs[:3]), sorted(feats), replay_case,
                                        mech="c07:imports-emitted"))
            return CaseResult("violated", [v.to_json() for v in violations], stats, {"features": sorted(feats)})
        csm_mod = sys.modules["%s.csm" % pkg.__name__]
        count("generated")

        def in_python(name: str, token: Any) -> Any:
            if name == "Upload" and isinstance(token, str) and token.startswith("upload-tok#"):
                import io
                up_cls = getattr(sys.modules[pkg.__name__ + ".base_model"], "Upload")
                return up_cls(filename=token.replace("#", "_") + ".txt", content=io.BytesIO(token.encode()), content_type="text/x-vf")
            v = variant_of.get(name)
            i = index_of.get(name)
            if v in ("both", "deprecated_import"):
                return getattr(csm_mod, "Tok%d" % i)(token)
            if v == "shared_cls":
                return csm_mod.SHARED(token)
            if v == "ctor_parse":
                obj = getattr(csm_mod, "Tok%d" % i)(token)  # built without logging a parse call
                obj.__class__ = getattr(csm_mod, "Ctor%d" % i)
                return obj
            if v == "native_datetime":
                return datetime.datetime.fromisoformat(token)
            return token

        def in_wire(name: str, token: Any) -> Any:
            v = variant_of.get(name)
            i = index_of.get(name)
            if v in ("both", "deprecated_import", "ctor_parse", "shared_cls"):
                return "ser%d:%s" % (i, token)
            if v == "serialize_str":
                return "S%d:%s" % (i, token)
            return token

        def out_expect(name):
            v = variant_of.get(name)
            i = index_of.get(name)
            if v == "shared_cls":
                return lambda raw: csm_mod.SHARED(raw)
            if v in ("both", "deprecated_import"):
                return lambda raw: getattr(csm_mod, "Tok%d" % i)(raw)
            if v == "ctor_parse":
                def mk(raw, i=i):
                    obj = getattr(csm_mod, "Tok%d" % i)(raw)
                    obj.__class__ = getattr(csm_mod, "Ctor%d" % i)
                    return obj
                return mk
            if v == "parse_str":
                return lambda raw: "P%d:%s" % (i, raw)
            if v == "native_datetime":
                return lambda raw: datetime.datetime.fromisoformat(raw)
            return lambda raw: raw

        def token_gen(name):
            v = variant_of.get(name)
            if v == "native_datetime":
                return lambda n: (datetime.datetime(2020, 1, 1) + datetime.timedelta(seconds=n)).isoformat()
            if v in ("serialize_str", "parse_str", "unconfigured"):
                return lambda n: "" if n % 4 == 0 else "%s#%d" % (name, n)  # a non-null but falsy value is still a value
            return lambda n: "%s#%d" % (name, n)

        tokens = {n: token_gen(n) for n in scalars}
        if uploads:
            tokens["Upload"] = lambda n: "upload-tok#%d" % n
        scalar_expect = {n: out_expect(n) for n in scalars}
        server = RefServer(schema_ref)
        from ..deps import make_tracer
        client, is_async = make_client(pkg, cfg, server, make_tracer() if (case.get("cfg") or {}).get("_tracer") else None)  # the traced code path is a different one
        methods = find_methods(pkg, cfg, names)
        op_nodes = {d.name.value: d for d in authored.definitions if isinstance(d, OperationDefinitionNode)}

        def wire_tree(t, tree):
            """abstract tree -> expected wire JSON + list of (scalar, token) occurrences that must be serialised"""
            from graphql import GraphQLInputObjectType, GraphQLList, GraphQLNonNull
            occ = []

            def go(t, x):
                if x is None:
                    return None
                if isinstance(t, GraphQLNonNull):
                    return go(t.of_type, x)
                if isinstance(t, GraphQLList):
                    return [go(t.of_type, y) for y in x]
                if isinstance(t, GraphQLInputObjectType):
                    return {k: go(t.fields[k].type, v) for k, v in x.items()}
                if isinstance(t, GraphQLScalarType) and t.name in variant_of:
                    if variant_of[t.name] in ("both", "deprecated_import", "serialize_str", "ctor_parse", "shared_cls"):
                        occ.append((index_of[t.name], x))
                    return in_wire(t.name, x)
                return x

            return go(t, tree), occ

        for op_name in names:
            mname = methods.get(op_name)
            if mname is None:
                continue
            opnode = op_nodes[op_name]
            is_sub = opnode.operation.value == "subscription"
            csm_mod.CALLS.clear()
            pmap = probe_param_map(client, is_async, mname, server, is_sub)
            if set(pmap) != {vd.variable.name.value for vd in opnode.variable_definitions or ()}:
                # serialize functions transform the probe markers: learn the map from the signature order instead
                from ..values import param_names
                pn = [p for p in param_names(client, mname)]
                req = [vd.variable.name.value for vd in opnode.variable_definitions if vd.type.kind == "non_null_type"]
                opt = [vd.variable.name.value for vd in opnode.variable_definitions if vd.type.kind != "non_null_type"]
                if len(pn) != len(req) + len(opt):
                    count("ops_skipped_param_map")
                    continue
                pmap = dict(zip(req + opt, pn))
            for wi, mode in enumerate(["full", "nulls", "allnull", "single"]):
                vg = ValueGen(schema_ref, rng, custom_scalar_values=tokens)
                tree = vg.variables(opnode, minimal=(wi == 2))
                var_feats = set()
                expected_vars = {}
                serialize_expected = []
                top_level_scalar_dirty = None
                listed_extra: List[Any] = []     # calls the listed behaviour adds: serialize(UNSET) / serialize(None) / serialize(<whole list>)
                listed_removed: List[Any] = []   # per-item calls it makes instead of
                listed_vars: Dict[str, str] = {}  # variable -> which listed mechanism governs its wire value
                for vd in opnode.variable_definitions or ():
                    vname = vd.variable.name.value
                    t = type_from_ast(schema_ref, vd.type)
                    named = get_named_type(t)
                    is_cfg_scalar = isinstance(named, GraphQLScalarType) and variant_of.get(named.name) in ("both", "deprecated_import", "serialize_str", "ctor_parse", "shared_cls")
                    v = tree[vname]
                    si_ = index_of.get(named.name)
                    if is_cfg_scalar and str(t).startswith("["):
                        top_level_scalar_dirty = "scalar-variable-list-passed-whole-to-serialize"
                        var_feats.add("var.list_custom_scalar")
                        listed_vars[vname] = "scalar-variable-list-passed-whole-to-serialize"
                        if v is OMIT:
                            listed_extra.append((si_, "UNSET"))
                        elif v is None:
                            listed_extra.append((si_, "None"))
                        else:
                            _, occ_ = wire_tree(t, v)
                            listed_removed.extend((i_, repr(in_python(scalars[i_], tok_))) for i_, tok_ in occ_)
                            listed_extra.append((si_, "<whole-list>"))
                    elif is_cfg_scalar and (v is OMIT or v is None):
                        top_level_scalar_dirty = top_level_scalar_dirty or "scalar-variable-serialize-called-for-unset-or-none"
                        var_feats.add("var.optional_custom_scalar_absent")
                        listed_vars[vname] = "scalar-variable-serialize-called-for-unset-or-none"
                        listed_extra.append((si_, "UNSET" if v is OMIT else "None"))
                    if v is OMIT:
                        continue
                    w, occ = wire_tree(t, v)
                    expected_vars[vname] = w
                    serialize_expected.extend(occ)
                try:
                    kwargs = python_args(pkg, cfg, opnode, tree, schema_ref, by_alias=(wi % 2 == 0), pmap=pmap, transform=in_python)
                except BaseException as e:  # noqa: BLE001
                    count("args_unbuildable")
                    continue
                if is_sub and uploads and "upload-tok#" in json.dumps(strip_omit(tree), default=str):
                    count("upload_in_subscription_skipped")  # files have no defined meaning in a websocket frame
                    continue
                world = World(schema_ref, seed=case["seed"] * 100 + wi, mode=mode, rotation=wi, custom_scalar_values=tokens)
                server.world = world
                csm_mod.CALLS.clear()
                n0 = len(server.captured)
                if is_sub:
                    with patched_ws(client, server, [world]):
                        status, value = call_method(client, is_async, mname, kwargs)
                else:
                    flaky = wi == 2 and not top_level_scalar_dirty
                    if flaky:
                        server.drop_next = 1  # the peer drops the connection after reading the request: whatever the client does about it, each value is serialised once per call
                    status, value = call_method(client, is_async, mname, kwargs)
                    server.drop_next = 0
                    if flaky:
                        ser_calls = sorted((i, a) for k, i, a in csm_mod.CALLS if k == "serialize")
                        ser_want = sorted((i, repr(in_python(scalars[i], tok))) for i, tok in serialize_expected)
                        count("calls_with_dropped_connection")
                        if ser_calls != ser_want:
                            violations.append(Violation(PROP, "serialize-exactly-once", "%s: the peer dropped the connection after the first request (%d request(s) sent, call %s): serialize calls %r, "
                                                        "expected one per non-null occurrence %r" % (op_name, len(server.captured) - n0, status, ser_calls[:12], ser_want[:12]),
                                                        sorted(feats | vg.feats | var_feats), replay_case, mech="c07:serialize-once"))
                        continue
                calls = list(csm_mod.CALLS)
                count("calls")
                fl = sorted(feats | vg.feats | var_feats)
                # ---- serialisation side
                ser_calls = sorted((i, a) for k, i, a in calls if k == "serialize")
                ser_want = sorted((i, repr(in_python(scalars[i], tok))) for i, tok in serialize_expected)
                mech_ser = top_level_scalar_dirty or "c07:serialize-once"
                if len(server.captured) != n0 + 1:
                    violations.append(Violation(PROP, "request-sent", "%s: call did not reach the transport: %s %s" % (
                        op_name, status, ("%s: %s" % (type(value).__name__, str(value)[:300])) if status == "exc" else ""), fl, replay_case,
                        # only a failure inside a serialize function that was handed None/UNSET belongs to the listed mechanism; a NameError or ImportError never does
                        mech=(top_level_scalar_dirty if (status == "exc" and type(value).__name__ in ("TypeError", "ValueError", "PydanticSerializationError")) else None) or "c07:request-sent"))
                    continue
                count("serialize_calls_expected", len(ser_want))
                if ser_calls != ser_want:
                    # A difference belongs to the listed findings only if it is EXACTLY what they describe: the expected calls, minus the per-item calls of
                    # list variables, plus one call per listed variable with UNSET / None / the whole list. Anything else in the same operation is new.
                    import collections as _c

                    def _norm(a_):
                        return "UNSET" if "UnsetType" in a_ or a_ == "UNSET" else ("<whole-list>" if a_.startswith("[") else a_)
                    model = _c.Counter(ser_want)
                    model.subtract(_c.Counter(listed_removed))
                    model.update(_c.Counter(listed_extra))
                    model = +model
                    observed = _c.Counter((i_, _norm(a_)) for i_, a_ in ser_calls)
                    is_listed = bool(top_level_scalar_dirty) and observed == model
                    violations.append(Violation(PROP, "serialize-exactly-once", "%s: serialize calls %r, expected one per non-null occurrence %r%s" % (
                        op_name, ser_calls[:12], ser_want[:12], "" if is_listed or not top_level_scalar_dirty else " (and not what the listed behaviour for optional / list variables would give: %r)" % sorted(model.items())[:12]),
                        fl, replay_case, mech=(mech_ser if is_listed else "c07:serialize-once")))
                sent = server.captured[-1].get("variables") or {}
                want_sent = json.loads(json.dumps(expected_vars))
                if sent != want_sent:
                    # only the variables governed by a listed mechanism may differ (their value is whatever serialize made of UNSET / None / the list)
                    rest_equal = {k_: v_ for k_, v_ in sent.items() if k_ not in listed_vars} == {k_: v_ for k_, v_ in want_sent.items() if k_ not in listed_vars}
                    violations.append(Violation(PROP, "wire-is-serialize-of-value", "%s: variables sent %s expected %s" % (
                        op_name, json.dumps(sent, sort_keys=True)[:600], json.dumps(expected_vars, sort_keys=True)[:600]), fl, replay_case,
                        mech=(mech_ser if (top_level_scalar_dirty and rest_equal) else "c07:wire-value")))
                # ---- parsing side
                resp = server.responses[-1] if server.responses else {}
                verrs = server.validation_errors[-1] if server.validation_errors else []
                if verrs or resp.get("errors") or resp.get("data") is None:
                    count("responses_not_clean")
                    continue
                data = resp["data"]
                if is_sub and status == "ok" and isinstance(value, list) and len(value) == 1:
                    value = value[0]
                if status != "ok":
                    violations.append(Violation(PROP, "response-accepted", "%s [%s]: %s: %s" % (op_name, mode, type(value).__name__, str(value)[:500]), fl, replay_case,
                                                mech="c07:response-accepted:" + type(value).__name__))
                    continue
                parse_want = []
                where = {}
                for path, raw in oracles.enumerate_positions(data):
                    if raw is None or isinstance(raw, (dict, list)) or not path:
                        continue
                    t = oracles.type_at(world.types, path)
                    named = get_named_type(t) if t is not None else None
                    if isinstance(named, GraphQLScalarType) and variant_of.get(named.name) in ("both", "deprecated_import", "parse_str", "ctor_parse", "shared_cls"):
                        parse_want.append((index_of[named.name], repr(raw)))
                        where[repr(raw)] = path
                parse_calls = sorted((i, a) for k, i, a in calls if k == "parse")
                count("parse_calls_expected", len(parse_want))
                count("responses_checked")
                if parse_calls != sorted(parse_want):
                    import collections
                    diff = collections.Counter(parse_calls)
                    diff.subtract(collections.Counter(parse_want))
                    off = {"%s@%r" % (a, where.get(a)): n for (i, a), n in diff.items() if n}
                    violations.append(Violation(PROP, "parse-exactly-once", "%s [%s]: parse call surplus(+)/deficit(-) per occurrence: %r" % (op_name, mode, dict(list(off.items())[:8])),
                                                fl, replay_case, mech="c07:parse-once"))
                out: List[Any] = []
                wstats: Dict[str, int] = {}
                oracles.walk(value, data, (), world.types, out, wstats, schema_ref, scalar_expect=scalar_expect)
                for clause, detail in out[:4]:
                    violations.append(Violation(PROP, "reaches-user-as-parse-of-raw", "%s [%s]: %s: %s" % (op_name, mode, clause, detail), fl, replay_case, mech="c07:model-value:" + clause))
                count("leaves_walked", wstats.get("leaves", 0))
        # ---- None put into an existing input model where the schema wants a value: either the model refuses the assignment or serialize still never sees None
        if "VfTakeInput" in methods and not uploads:
            opnode = op_nodes["VfTakeInput"]
            try:
                vg = ValueGen(schema_ref, rng, custom_scalar_values=tokens)
                tree = vg.variables(opnode, minimal=True)
                from ..values import param_names as _pn
                pmap_ = {"inp": next(iter(_pn(client, methods["VfTakeInput"])), "inp")}
                kwargs = python_args(pkg, cfg, opnode, tree, schema_ref, by_alias=True, pmap=pmap_, transform=in_python)
                model = next(iter(kwargs.values()))
            except BaseException:  # noqa: BLE001
                model = None
            if model is not None and hasattr(type(model), "model_fields"):
                for k, n in enumerate(scalars):
                    if variant_of[n] not in ("both", "deprecated_import", "serialize_str", "ctor_parse", "shared_cls"):
                        continue
                    fname = next((f_ for f_, fi_ in type(model).model_fields.items() if (fi_.alias or f_) == "s%d" % k), None)
                    if fname is None:
                        continue
                    count("assignment_none_attempts")
                    try:
                        setattr(model, fname, None)
                        refused = False
                    except Exception:  # noqa: BLE001
                        refused = True
                    if refused:
                        count("assignment_none_refused")
                        continue
                    csm_mod.CALLS.clear()
                    server.world = World(schema_ref, seed=case["seed"], mode="full", rotation=0, custom_scalar_values=tokens)
                    call_method(client, is_async, methods["VfTakeInput"], kwargs)
                    if any(k_ == "serialize" and a_ == "None" for k_, i_, a_ in csm_mod.CALLS):
                        violations.append(Violation(PROP, "serialize-never-for-none", "VfTakeInput: None assigned to the non-null field s%d of an existing input model was accepted and serialize was called with None" % k,
                                                    sorted(feats | {"input.assignment_after_construction"}), replay_case, mech="c07:serialize-none-after-assignment"))
                    break
        # ---- the operation builder (custom_arguments.py): the same contract for arguments given to a builder method
        root_q = schema_ref.query_type
        if cfg_full.get("enable_custom_operations") and "vfTakeScalars" in root_q.fields:
            import inspect as _inspect
            cq = sys.modules.get(pkg.__name__ + ".custom_queries")
            holder = getattr(cq, "Query", None) if cq else None
            bmeth = next((getattr(holder, c_) for c_ in ("vf_take_scalars", "vfTakeScalars") if holder is not None and hasattr(holder, c_)), None)
            arg_names = list(root_q.fields["vfTakeScalars"].args)
            params = [p_ for p_ in _inspect.signature(bmeth).parameters] if bmeth else []
            if bmeth is None or len(params) != len(arg_names):
                count("builder_probe_skipped")
            else:
                py_of = dict(zip(arg_names, params))
                ser_variants = ("both", "deprecated_import", "serialize_str", "ctor_parse", "shared_cls")
                for script, num in (("truthy", 7), ("falsy", 20), ("optional-given", 40), ("optional-none", 13), ("required-none", 51)):
                    kwargs, want_values, want_args, ser_want = {}, [], [], []
                    for k, n in enumerate(scalars):
                        given = [("a%d" % k, tokens[n](num + k * 20))]
                        if script == "optional-given":
                            given.append(("o%d" % k, tokens[n](num + 1 + k * 20)))
                        if script == "optional-none" and k == 0:
                            kwargs[py_of["o0"]] = None  # explicit None: omitted, serialize not called
                        if script == "required-none" and k == 0:
                            # None where the schema wants a value is the caller's mistake; serialize is still "never called for None"
                            kwargs[py_of["a0"]] = None
                            given = []
                        for an, tok in given:
                            kwargs[py_of[an]] = in_python(n, tok)
                            want_values.append(in_wire(n, tok))
                            want_args.append(an)
                            if variant_of[n] in ser_variants:
                                ser_want.append((k, repr(in_python(n, tok))))
                    csm_mod.CALLS.clear()
                    n0 = len(server.captured)
                    server.world = World(schema_ref, seed=case["seed"], mode="full", rotation=0, custom_scalar_values=tokens)
                    fl = sorted(feats | {"builder.scalar_args", "builder.scalar_args." + script})
                    try:
                        fobj = bmeth(**kwargs)
                        if is_async:
                            import asyncio as _asyncio
                            _asyncio.run(client.query(fobj, operation_name="VfBuilderProbe"))
                        else:
                            client.query(fobj, operation_name="VfBuilderProbe")
                        err = None
                    except BaseException as e:  # noqa: BLE001
                        err = e
                    count("builder_probe_calls")
                    if len(server.captured) != n0 + 1:
                        violations.append(Violation(PROP, "builder-request-sent", "builder probe [%s]: call did not reach the transport: %s: %s" % (
                            script, type(err).__name__, str(err)[:300]), fl, replay_case, mech="c07:builder-request-sent"))
                        continue
                    ser_calls = sorted((i_, a_) for k_, i_, a_ in csm_mod.CALLS if k_ == "serialize")
                    count("serialize_calls_expected", len(ser_want))
                    if ser_calls != sorted(ser_want):
                        violations.append(Violation(PROP, "builder-serialize-exactly-once", "builder probe [%s]: serialize calls %r, expected one per given non-None argument %r" % (
                            script, ser_calls[:12], sorted(ser_want)[:12]), fl, replay_case, mech="c07:builder-serialize-once"))
                    body = server.captured[-1]
                    sent_values = sorted((json.dumps(v_, default=str) for v_ in (body.get("variables") or {}).values()))
                    if sent_values != sorted(json.dumps(v_, default=str) for v_ in want_values):
                        violations.append(Violation(PROP, "builder-wire-is-serialize-of-value", "builder probe [%s]: variables sent %s, expected the values %s" % (
                            script, json.dumps(body.get("variables"), sort_keys=True, default=str)[:500], json.dumps(want_values, default=str)[:500]), fl, replay_case, mech="c07:builder-wire-value"))
                    try:
                        sent_doc = parse(body.get("query") or "")
                        top = [s_ for d_ in sent_doc.definitions if isinstance(d_, OperationDefinitionNode) for s_ in d_.selection_set.selections]
                        got_args = sorted(a_.name.value for s_ in top if getattr(s_, "name", None) and s_.name.value == "vfTakeScalars" for a_ in s_.arguments)
                    except Exception as e:  # noqa: BLE001
                        got_args = ["<unparsable: %s>" % e]
                    if got_args != sorted(want_args):
                        violations.append(Violation(PROP, "builder-arguments-in-document", "builder probe [%s]: the document passes %r, the caller gave %r" % (
                            script, got_args, sorted(want_args)), fl, replay_case, mech="c07:builder-arguments"))
                feats.add("builder.scalar_args")
    sample = None
    if case["idx"] < 2:
        sample = {"scalar_config": cfg_full.get("scalars"), "operations": [o[:300] for o in ops]}
    return CaseResult("violated" if violations else "held", [v.to_json() for v in violations], stats, {"features": sorted(feats)}, sample=sample)


def run(tier: str, seed: int) -> int:
    r = core.Run(PROP, tier, seed)
    r.rule = ("seeded schemas with 1-2 custom scalars occurring in results (plain, optional, lists, nested objects, fragments) and in arguments (top-level variable, list "
              "item, nested input model field); each scalar gets a configuration variant {type+parse+serialize with a custom class, str+parse, str+serialize, "
              "pydantic-native datetime via dotted path, deprecated import key, unconfigured}; instrumented functions shipped through files_to_include; per operation "
              "4 worlds/argument scripts; distinct = distinct feature-set")
    r.assumptions = ["graphql-core reference server", "the instrumented functions' call log is the ground truth for 'called once'"]
    r.floors = {"responses_checked": 200, "parse_calls_expected": 200, "serialize_calls_expected": 100, "builder_probe_calls": 20}
    n = 1200 if tier == "thorough" else 170
    cases = [cw.make_case(seed, i, dirty=["schema.force_scalar"], tier=tier) for i in range(n)]
    for i, c in enumerate(cases):
        if i % 4 == 2:
            c["upload"] = True
            c["size"] = "l"
        if i % 5 == 1:
            # the operation builder modules mention the configured scalar types in their signatures too: "every needed import is emitted"
            c["cfg"] = dict(c["cfg"], enable_custom_operations=True)

    def on_result(case, res):
        r.add(case, res)
        if res.status != "inconclusive":
            r.mark_distinct(tuple(sorted(res.sets.get("features", []))))

    core.run_forked(cases, worker, timeout_s=180, on_result=on_result)
    return r.finish()


def replay(data) -> int:
    case = dict(data["case"])
    res = core.run_forked([case], worker)[0]
    print("status:", res.status, res.note)
    for v in res.violations:
        print("-", v["clause"], "[", v["mech"], "] ::", v["detail"][:1500])
    return 1 if res.violations else 0
