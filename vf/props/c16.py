"""C16 - the graphqlschema strategy reproduces the schema.

The module produced by the real `graphqlschema` run is executed in a fresh fork and the resulting schema object
is compared with graphql-core's own reading of the source SDL - by print_schema and structurally (things
print_schema alone would miss).  The .graphql/.gql target is parsed back the same way.
"""
from __future__ import annotations

import os
import importlib.util
import json
import random
import warnings
from typing import Any, Dict, List

from .. import core
from ..core import CaseResult, Violation

PROP = "C16"

DIRECTIVE_LOCS = ["FIELD_DEFINITION", "OBJECT", "ARGUMENT_DEFINITION", "ENUM_VALUE", "INPUT_FIELD_DEFINITION", "QUERY", "FIELD", "INTERFACE", "UNION", "SCALAR", "SCHEMA",
                  "FRAGMENT_SPREAD", "VARIABLE_DEFINITION"]


def enrich(spec, gen, rng: random.Random, feats: set) -> None:
    """Add the schema features the statement lists and the generic generator does not produce."""
    for i in range(rng.randrange(0, 3)):
        name = "dir%s%d" % (rng.choice(["Auth", "cache", "Tag_x"]), i)
        args = []
        for j in range(rng.randrange(0, 3)):
            t = gen.in_type(list(spec.inputs))
            a = "%s: %s" % ("arg%d" % j, t)
            if rng.random() < 0.5:
                a += " = " + gen.literal(t)
            if rng.random() < 0.3:
                a = '"arg desc %d" %s' % (j, a)
            args.append(a)
        rep = " repeatable" if rng.random() < 0.4 else ""
        locs = rng.sample(DIRECTIVE_LOCS, rng.randrange(1, 4))
        d = "directive @%s%s%s on %s" % (name, "(" + ", ".join(args) + ")" if args else "", rep, " | ".join(locs))
        if rng.random() < 0.4:
            d = '"""Directive\ndescription "q" """\n' + d
        spec.directives.append(d)
        feats.add("directive.repeatable" if rep else "directive.plain")
    for s in spec.scalars:
        if rng.random() < 0.5:
            spec.specified_by[s] = "https://example.test/spec/%s" % s
            feats.add("scalar.specified_by")
    for ename, values in spec.enums.items():
        for v in values:
            if rng.random() < 0.25:
                spec.enum_value_meta[(ename, v)] = (rng.choice([None, "value desc", "multi\nline"]), rng.choice([None, "old value"]))
                feats.add("enum.value_meta")
    for fields in spec.inputs.values():
        for a in fields:
            if rng.random() < 0.2:
                a.description = gen.description()
            if rng.random() < 0.1 and not a.type.endswith("!"):
                a.deprecated = "input field gone"
                feats.add("deprecated.input_field")
    for impl, fields in list(spec.objects.values()) + list(spec.interfaces.values()):
        for f in fields:
            for a in f.args:
                if rng.random() < 0.15 and not a.type.endswith("!"):
                    a.deprecated = "arg gone"
                    feats.add("deprecated.argument")
                if rng.random() < 0.2:
                    a.description = rng.choice(["arg description", "with \"quote\""])
    # interface fields are copied into implementers by reference, so metadata stays consistent
    if rng.random() < 0.4:
        spec.schema_description = rng.choice(["Schema description", "Multi\nline schema \"desc\""])
        feats.add("schema.description")
    # federation-style names with one leading underscore (legal; only two leading underscores are reserved)
    if rng.random() < 0.35:
        from ..gen.schema import Arg, Field
        spec.scalars.append("_Any")
        members = [n for n in spec.objects if n not in spec.roots.values()][:2]
        spec.objects["_Service"] = ([], [Field("sdl", "String")])
        if members:
            spec.unions["_Entity"] = members
        q = spec.roots["query"]
        spec.objects[q][1].append(Field("_service", "_Service!"))
        if members:
            spec.objects[q][1].append(Field("_entities", "[_Entity]!", [Arg("representations", "[_Any!]!")]))
        feats.add("names.type_leading_underscore")
    # float extremes as defaults
    for fields in spec.inputs.values():
        for a in fields:
            if a.type in ("Float", "Float!") and rng.random() < 0.5:
                a.default = rng.choice(["1e300", "5e-324", "-0.0", "123456789.125"])
                feats.add("default.float_extreme")


def describe_type(t) -> str:
    return str(t)


def schema_facts(schema) -> Dict[str, Any]:
    """Everything the statement lists, as plain data."""
    from graphql import (GraphQLEnumType, GraphQLInputObjectType, GraphQLInterfaceType, GraphQLObjectType, GraphQLScalarType, GraphQLUnionType, Undefined,
                         specified_directives)

    def norm_default(v):
        if v is Undefined:
            return "<undefined>"
        return json.loads(json.dumps(v, default=repr, sort_keys=True))

    def args_facts(args):
        return {n: {"type": str(a.type), "default": norm_default(a.default_value), "description": a.description, "deprecation": a.deprecation_reason} for n, a in args.items()}

    facts: Dict[str, Any] = {"types": {}, "directives": {}}
    for name, t in schema.type_map.items():
        if name.startswith("__") or name in ("String", "Int", "Float", "Boolean", "ID"):
            continue
        f: Dict[str, Any] = {"kind": type(t).__name__, "description": t.description}
        if isinstance(t, (GraphQLObjectType, GraphQLInterfaceType)):
            f["interfaces"] = sorted(i.name for i in t.interfaces)
            f["fields"] = {n: {"type": str(fl.type), "description": fl.description, "deprecation": fl.deprecation_reason, "args": args_facts(fl.args)} for n, fl in t.fields.items()}
            f["field_order"] = list(t.fields)
        elif isinstance(t, GraphQLInputObjectType):
            f["fields"] = {n: {"type": str(fl.type), "default": norm_default(fl.default_value), "description": fl.description, "deprecation": fl.deprecation_reason}
                           for n, fl in t.fields.items()}
            f["field_order"] = list(t.fields)
        elif isinstance(t, GraphQLEnumType):
            f["values"] = {n: {"value": norm_default(v.value), "description": v.description, "deprecation": v.deprecation_reason} for n, v in t.values.items()}
            f["value_order"] = list(t.values)
        elif isinstance(t, GraphQLUnionType):
            f["members"] = [m.name for m in t.types]
        elif isinstance(t, GraphQLScalarType):
            f["specified_by_url"] = t.specified_by_url
        facts["types"][name] = f
    std = {d.name for d in specified_directives}
    for d in schema.directives:
        if d.name in std:
            continue
        facts["directives"][d.name] = {"locations": [l.name for l in d.locations], "repeatable": d.is_repeatable, "description": d.description, "args": args_facts(d.args)}
    facts["std_directives_present"] = sorted(d.name for d in schema.directives if d.name in std)
    facts["query"] = schema.query_type.name if schema.query_type else None
    facts["mutation"] = schema.mutation_type.name if schema.mutation_type else None
    facts["subscription"] = schema.subscription_type.name if schema.subscription_type else None
    facts["description"] = schema.description
    return facts


def strip_uncarried(facts: Dict[str, Any]) -> Dict[str, Any]:
    """Facts without what an introspection result obtained with descriptions=False and none of the optional introspection fields can hold."""
    f = json.loads(json.dumps(facts))

    # a conformant server hides deprecated arguments and input fields unless asked with includeDeprecated (an optional introspection feature)
    def drop_deprecated_args(x):
        if isinstance(x, dict):
            if isinstance(x.get("args"), dict):
                x["args"] = {k: v for k, v in x["args"].items() if not v.get("deprecation")}
            for v in x.values():
                drop_deprecated_args(v)

    drop_deprecated_args(f)
    for t in f["types"].values():
        if t.get("kind") == "GraphQLInputObjectType":
            gone = [k for k, v in t.get("fields", {}).items() if v.get("deprecation")]
            for k in gone:
                del t["fields"][k]
            t["field_order"] = [k for k in t.get("field_order", []) if k not in gone]

    def walk(x, in_args=False):
        if isinstance(x, dict):
            for k in list(x):
                if k == "description" or k == "specified_by_url":
                    x[k] = None
                elif k == "repeatable":
                    x[k] = False
                elif k == "deprecation" and in_args:
                    x[k] = None
                else:
                    walk(x[k], in_args or k == "args")
        elif isinstance(x, list):
            for y in x:
                walk(y, in_args)

    walk(f)
    for t in f["types"].values():
        if t.get("kind") == "GraphQLInputObjectType":
            for fld in t.get("fields", {}).values():
                fld["deprecation"] = None
    return f


def diff_facts(a: Any, b: Any, path: str = "") -> List[str]:
    out: List[str] = []
    if isinstance(a, dict) and isinstance(b, dict):
        for k in sorted(set(a) | set(b)):
            if k not in a:
                out.append("%s/%s only in generated" % (path, k))
            elif k not in b:
                out.append("%s/%s missing in generated" % (path, k))
            else:
                out.extend(diff_facts(a[k], b[k], "%s/%s" % (path, k)))
    elif a != b:
        out.append("%s: source %r generated %r" % (path, a, b))
    return out[:12]


def worker(case: Dict[str, Any]) -> CaseResult:
    from graphql import build_schema, parse, print_schema, validate_schema

    from ..gen.schema import generate_schema
    from ..genpkg import run_cli, write_case

    stats: Dict[str, Any] = {}
    violations: List[Violation] = []
    rng = random.Random(case["seed"] * 29 + case["idx"])
    spec, feats, gen = generate_schema(case["seed"] * 100003 + case["idx"], {"schema.extend"} if case["idx"] % 4 == 1 else {"wrap.deep"} if case["idx"] % 4 == 2 else set(), size=case.get("size", "m"), descriptions=True)
    feats = set(feats)
    enrich(spec, gen, rng, feats)
    if case.get("remote"):
        # a deprecated input field that a default value elsewhere mentions would make the hidden field surface inside a default: keep the remote
        # cases to deprecations on arguments, fields and enum values
        for fields_ in spec.inputs.values():
            for a_ in fields_:
                a_.deprecated = None
    sdl = case.get("_sdl") or spec.sdl()
    try:
        src = build_schema(sdl)
        if validate_schema(src):
            raise ValueError(str(validate_schema(src)[0]))
    except Exception as e:  # noqa: BLE001
        return CaseResult("inconclusive", note="generator produced an invalid schema: %s" % str(e)[:200], stats={"gen_invalid": 1})
    target = case["target"]
    cfg_full = {"target_file_path": target}
    if case.get("names"):
        cfg_full["schema_variable_name"], cfg_full["type_map_variable_name"] = case["names"]
    feats.add("target." + target.rsplit(".", 1)[1])
    if target != target.lower():
        feats.add("target.mixed_case_name")
    fl = sorted(feats)
    replay_case = dict(case)
    replay_case["_sdl"] = sdl
    remote = bool(case.get("remote"))
    if remote:
        feats.add("source.introspection")
        fl = sorted(feats)
    with core.Scratch() as root:
        if remote:
            # the schema arrives through introspection of a remote endpoint (answered in-process by graphql-core on the source schema)
            import ariadne_codegen.schema as schema_mod

            from .c19 import PostRecorder
            cfg_full["remote_schema_url"] = "http://introspect.test/graphql"
            cfg = write_case(root, None, None, cfg_full)
            cfg.pop("include_comments", None)
            rec = PostRecorder(src)
            saved_post = schema_mod.httpx.post
            schema_mod.httpx.post = rec
            try:
                with warnings.catch_warnings():
                    warnings.simplefilter("ignore")
                    g = run_cli(root, "graphqlschema", cfg)
            finally:
                schema_mod.httpx.post = saved_post
        elif case["idx"] % 10 == 7 and not case.get("corpus"):
            # the process's default text encoding is not an input either: the schema file is pure ASCII (non-ASCII characters of descriptions, reasons and defaults are
            # written as \uXXXX escapes, which regular strings allow) and the generator runs in its own interpreter under the C locale with UTF-8 mode off
            import re as _re
            import subprocess
            from types import SimpleNamespace
            parts = _re.split(r'("""(?:.|\n)*?""")', sdl)
            if all(p_.isascii() for p_ in parts[1::2]):
                ascii_sdl = "".join(p_ if k_ % 2 else "".join(c_ if ord(c_) < 128 else "\\u%04x" % ord(c_) for c_ in p_) for k_, p_ in enumerate(parts))
                cfg = write_case(root, ascii_sdl, None, cfg_full)
                cfg.pop("include_comments", None)
                env = dict(os.environ, LC_ALL="C", LANG="C", PYTHONUTF8="0", PYTHONCOERCECLOCALE="0", PYTHONPATH=str(core.REPO))
                pr = subprocess.run(["/venv/bin/python", "-X", "utf8=0", "-m", "ariadne_codegen", "graphqlschema"], cwd=str(root), env=env, capture_output=True, timeout=170)
                err = pr.stderr.decode("utf-8", "replace")
                last = err.strip().splitlines()[-1] if err.strip() else ""
                g = SimpleNamespace(ok=pr.returncode == 0, exc_type=last.split(":")[0] if last else "exit %d" % pr.returncode, exception=last, traceback=err[-1500:])
                feats.add("env.ascii_locale")
                fl = sorted(feats)
            else:
                cfg = write_case(root, sdl, None, cfg_full)
                cfg.pop("include_comments", None)
                with warnings.catch_warnings():
                    warnings.simplefilter("ignore")
                    g = run_cli(root, "graphqlschema", cfg)
        else:
            cfg = write_case(root, sdl, None, cfg_full)
            cfg.pop("include_comments", None)
            with warnings.catch_warnings():
                warnings.simplefilter("ignore")
                g = run_cli(root, "graphqlschema", cfg)
        if not g.ok:
            violations.append(Violation(PROP, "generates", "graphqlschema failed on a valid schema: %s: %s\n%s" % (g.exc_type, str(g.exception)[:300], g.traceback[-800:]), fl, replay_case,
                                        mech="c16:generates:" + g.exc_type))
            return CaseResult("violated", [v.to_json() for v in violations], stats, {"features": fl})
        out_path = root / target
        if not out_path.exists():
            violations.append(Violation(PROP, "target-written", "target file %s not written" % target, fl, replay_case, mech="c16:target-written"))
            return CaseResult("violated", [v.to_json() for v in violations], stats, {"features": fl})
        stats["generated"] = 1
        if target.lower().endswith(".py"):
            with warnings.catch_warnings(record=True) as caught:
                warnings.simplefilter("always")
                try:
                    import importlib.machinery
                    modspec = importlib.util.spec_from_file_location("generated_schema_module", out_path, loader=importlib.machinery.SourceFileLoader("generated_schema_module", str(out_path)))
                    mod = importlib.util.module_from_spec(modspec)
                    modspec.loader.exec_module(mod)
                except BaseException as e:  # noqa: BLE001
                    violations.append(Violation(PROP, "module-imports", "generated module does not execute: %s: %s" % (type(e).__name__, str(e)[:400]), fl, replay_case,
                                                mech="c16:module-imports:" + type(e).__name__))
                    return CaseResult("violated", [v.to_json() for v in violations], stats, {"features": fl})
            if caught:
                violations.append(Violation(PROP, "module-imports-cleanly", "warnings on import: %r" % [str(w.message)[:100] for w in caught[:3]], fl, replay_case, mech="c16:import-warnings"))
            sname, tname = case.get("names") or ("schema", "type_map")
            if not hasattr(mod, sname) or not hasattr(mod, tname):
                violations.append(Violation(PROP, "variable-names", "module lacks %s / %s (has %r)" % (sname, tname, [n for n in vars(mod) if not n.startswith("_")][-6:]), fl, replay_case,
                                            mech="c16:variable-names"))
                return CaseResult("violated", [v.to_json() for v in violations], stats, {"features": fl})
            produced = getattr(mod, sname)
            if set(getattr(mod, tname)) != {n for n in src.type_map if not n.startswith("__") and n not in ("String", "Int", "Float", "Boolean", "ID")}:
                violations.append(Violation(PROP, "type-map", "type map keys %r" % sorted(getattr(mod, tname))[:10], fl, replay_case, mech="c16:type-map"))
        else:
            try:
                produced = build_schema(out_path.read_text(encoding="utf-8"))
            except BaseException as e:  # noqa: BLE001
                violations.append(Violation(PROP, "file-parses", "generated %s does not parse back: %s" % (target, str(e)[:300]), fl, replay_case, mech="c16:file-parses"))
                return CaseResult("violated", [v.to_json() for v in violations], stats, {"features": fl})
        errs = validate_schema(produced)
        if errs:
            violations.append(Violation(PROP, "produced-valid", "produced schema invalid: %s" % errs[0].message[:300], fl, replay_case, mech="c16:produced-valid"))
        a, b = print_schema(src), print_schema(produced)
        stats["print_comparisons"] = 1
        if remote:
            # what the introspection query the tool sends (descriptions off, no optional introspection fields) cannot carry is compared separately:
            # everything else must be reproduced exactly, the rest is one listed finding
            stats["introspected_sources"] = 1
            fa_full, fb = schema_facts(src), schema_facts(produced)
            reduced = strip_uncarried(fa_full)
            diffs = diff_facts(reduced, strip_uncarried(fb))
            if diffs:
                violations.append(Violation(PROP, "structurally-equal", "introspected source: " + "\n".join(diffs)[:1500], fl, replay_case, mech="c16:introspected:structurally-equal"))
            lost = diff_facts(fa_full, fb)
            if lost and not diffs:
                violations.append(Violation(PROP, "structurally-equal", "introspected source, lost on the way: " + "\n".join(lost)[:800], fl, replay_case,
                                            mech="introspected-source-loses-descriptions-and-optional-introspection-fields"))
        elif a != b:
            import difflib
            d = "".join(list(difflib.unified_diff(a.splitlines(True), b.splitlines(True), "source", "generated", n=0))[:24])
            violations.append(Violation(PROP, "print-schema-equal", d[:1500], fl, replay_case, mech="c16:print-schema-equal"))
        if remote:
            sample = {"source": "introspection", "target": target} if case["idx"] < 8 else None
            return CaseResult("violated" if violations else "held", [v.to_json() for v in violations], stats, {"features": fl}, sample=sample)
        fa, fb = schema_facts(src), schema_facts(produced)
        stats["structural_comparisons"] = 1
        stats["types_compared"] = len(fa["types"])
        stats["directives_compared"] = len(fa["directives"])
        diffs = diff_facts(fa, fb)
        if diffs:
            violations.append(Violation(PROP, "structurally-equal", "\n".join(diffs)[:1500], fl, replay_case, mech="c16:structurally-equal:" + diffs[0].split("/")[1] if "/" in diffs[0] else "c16:structurally-equal"))
        # ---- a second step of the history: the schema is edited a little and generated again onto the existing target; what is on disk afterwards
        # must be what a fresh generation of the edited schema gives (a target that still describes the old schema no longer reproduces its source)
        if case.get("regen") and not violations:
            import re as _re
            kind = case["regen"]
            sdl2 = sdl
            if kind == "string-whitespace":
                # only white space inside string literals changes (descriptions, default values, deprecation reasons)
                sdl2 = _re.sub(r'"([^"\n\\]*[^ "\n\\]) ([^ "\n\\][^"\n\\]*)"', lambda m_: '"%s   %s"' % (m_.group(1), m_.group(2)), sdl, count=3)
                if sdl2 == sdl:
                    kind = "appended-type"
            if kind == "appended-type":
                sdl2 = sdl + "\ntype VfAddedLater {\n  note: String\n}\n"
            elif kind == "case-change":
                sdl2 = sdl.replace("description", "Description").replace("plain", "Plain")
                if sdl2 == sdl:
                    sdl2 = sdl + "\nscalar VfAddedScalar\n"
            try:
                ok2 = not validate_schema(build_schema(sdl2))
            except Exception:  # noqa: BLE001
                ok2 = False
            if ok2 and sdl2 != sdl:
                (root / "schema.graphql").write_text(sdl2, encoding="utf-8")
                with warnings.catch_warnings():
                    warnings.simplefilter("ignore")
                    g2 = run_cli(root, "graphqlschema", cfg)
                with core.Scratch() as root2:
                    cfg2 = write_case(root2, sdl2, None, cfg_full)
                    cfg2.pop("include_comments", None)
                    with warnings.catch_warnings():
                        warnings.simplefilter("ignore")
                        g3 = run_cli(root2, "graphqlschema", cfg2)
                    stats["regenerations_after_edit"] = 1
                    stats["regen." + kind] = 1
                    if g2.ok and g3.ok:
                        over, fresh = (root / target).read_bytes(), (root2 / target).read_bytes()
                        if over != fresh:
                            import difflib
                            d = "".join(list(difflib.unified_diff(fresh.decode("utf-8", "replace").splitlines(True), over.decode("utf-8", "replace").splitlines(True), "fresh", "regenerated-over-existing", n=0))[:16])
                            violations.append(Violation(PROP, "regenerated-target-reproduces-edited-source", "edit kind %s: target regenerated over the previous generation differs from a fresh generation of the edited schema\n%s" % (kind, d[:1200]),
                                                        fl, dict(replay_case, _sdl2=sdl2), mech="c16:regenerate-after-edit:" + kind))
                    elif g2.ok != g3.ok:
                        violations.append(Violation(PROP, "regenerated-target-reproduces-edited-source", "edit kind %s: regeneration over the existing target %s, fresh generation %s" % (
                            kind, "succeeded" if g2.ok else "failed: %s" % g2.exc_type, "succeeded" if g3.ok else "failed: %s" % g3.exc_type), fl, replay_case, mech="c16:regenerate-after-edit:outcome"))
    sample = None
    if case["idx"] < 2:
        sample = {"sdl_head": sdl[:700], "target": target, "names": case.get("names")}
    return CaseResult("violated" if violations else "held", [v.to_json() for v in violations], stats, {"features": fl}, sample=sample)


def run(tier: str, seed: int) -> int:
    r = core.Run(PROP, tier, seed)
    r.rule = ("seeded valid schemas with descriptions (multi-line, quotes, backslashes, unicode), deprecations on fields/arguments/input fields/enum values, custom directives "
              "(arguments with defaults, repeatable, several locations), specifiedBy, custom root names, schema description, defaults of every literal kind incl. float extremes; "
              "x target {py (default and custom variable names), graphql, gql}; the produced module is executed / the file parsed in a fresh fork and compared by print_schema "
              "and structurally; a quarter of the cases then edit the schema (white space inside strings / an appended type / letter case) and generate again onto the existing "
              "target, which must equal a fresh generation of the edited schema; distinct = distinct feature-set")
    r.assumptions = ["graphql-core build_schema/print_schema are the reference reading of the SDL"]
    r.floors = {"print_comparisons": 200, "structural_comparisons": 200, "directives_compared": 50, "regenerations_after_edit": 40, "introspected_sources": 20}
    n = 3000 if tier == "thorough" else 400
    targets = [("schema_out.py", None), ("schema_out.py", ("my_schema", "my_types")), ("out.graphql", None), ("sub_out.gql", None), ("schema_out.py", ("schema_", "TYPES")),
               ("Schema.GraphQL", None), ("schema.GQL", None), ("Schema_Module.PY", None), ("out.Py", ("my_schema", "my_types"))]  # the extension decides the format whatever its letter case
    cases = []
    for i in range(n):
        t, names = targets[i % len(targets)]
        cases.append({"seed": seed, "idx": i, "target": t, "names": names, "size": ["s", "m", "l"][i % 3], "tier": tier})
        if i % 7 == 3:
            cases[-1]["remote"] = True
        if i % 4 == 1:
            cases[-1]["regen"] = ["string-whitespace", "appended-type", "case-change"][(i // 4) % 3]

    # the repository's own example schemas (and the schemas of its example clients) as fixed cases, for every target format
    import glob as _glob
    k = 0
    for f in sorted(_glob.glob("/repo/tests/main/graphql_schemas/*/schema.graphql") + _glob.glob("/repo/tests/main/clients/*/schema.graphql")):
        try:
            text = open(f, encoding="utf-8").read()
        except OSError:
            continue
        for t, names in targets[:3]:
            cases.append({"seed": seed, "idx": 800000 + k, "target": t, "names": names, "size": "s", "tier": tier, "_sdl": text, "corpus": f.split("/")[-2]})
            k += 1

    def on_result(case, res):
        r.add(case, res)
        if case.get("corpus"):
            r.count("corpus_cases")
        if res.status != "inconclusive":
            r.mark_distinct(tuple(sorted(res.sets.get("features", []))) + ((case["corpus"], case["target"]) if case.get("corpus") else ()))

    core.run_forked(cases, worker, timeout_s=120, on_result=on_result)
    return r.finish()


def replay(data) -> int:
    case = dict(data["case"])
    res = core.run_forked([case], worker)[0]
    print("status:", res.status, res.note)
    for v in res.violations:
        print("-", v["clause"], "::", v["detail"][:2000])
    return 1 if res.violations else 0
