"""Shared forked worker for the properties decided on 'generate -> import -> call against the reference server':
C01 (responses accepted and preserved), C02 (document sent), C04 (generates and loads), C05 (strictness)."""
from __future__ import annotations

import importlib
import json
import os
import pkgutil
import random
import re
import sys
import typing
import warnings
from pathlib import Path
from typing import Any, Dict, List, Optional, Set, Tuple

from .. import core, docoracle, oracles
from ..core import CaseResult, Violation

CONFIGS = [
    {},
    {"convert_to_snake_case": False},
    {"async_client": False},
    {"opentelemetry_client": True},
    {"async_client": False, "opentelemetry_client": True, "convert_to_snake_case": False},
    {"opentelemetry_client": True, "_tracer": True},
    {"async_client": False, "opentelemetry_client": True, "_tracer": True},
    {"async_client": False, "convert_to_snake_case": False},
]


def make_case(seed: int, idx: int, dirty: Optional[List[str]] = None, cfg_index: Optional[int] = None, **kw) -> Dict[str, Any]:
    case = {"seed": seed, "idx": idx, "dirty": sorted(dirty or []), "cfg": CONFIGS[(idx if cfg_index is None else cfg_index) % len(CONFIGS)]}
    case.update(kw)
    return case


def build_inputs(case: Dict[str, Any]):
    """Deterministically rebuild schema + document for a case. -> (sdl, frag_texts, op_texts, op_names, feats, schema_ref) or None."""
    from graphql import NoUnusedFragmentsRule, build_schema, parse, specified_rules, validate, validate_schema

    from ..gen.ops import generate_document
    from ..gen.schema import generate_schema

    dirty = set(case.get("dirty", []))
    if case.get("_sdl") and case.get("_queries") is not None:
        # replay of a recorded witness: the stored texts are the case (generators may have changed since it was recorded)
        from graphql import OperationDefinitionNode
        sdl = case["_sdl"]
        schema_ref = build_schema(sdl)
        defs = [d for d in case["_queries"].split("\n\n") if d.strip()]
        frs = [d for d in defs if d.lstrip().startswith("fragment")]
        ops = [d for d in defs if not d.lstrip().startswith("fragment")]
        names = [d.name.value for d in parse(case["_queries"]).definitions if isinstance(d, OperationDefinitionNode) and d.name]
        return sdl, frs, ops, names, set(case.get("_features", [])), schema_ref
    s = case["seed"] * 100003 + case["idx"]
    spec, sfeats, _ = generate_schema(s, dirty, size=case.get("size", "m"))
    sdl = spec.sdl()
    schema_ref = build_schema(sdl)
    if validate_schema(schema_ref):
        return None
    cfg = case["cfg"]
    rules = [r for r in specified_rules if r is not NoUnusedFragmentsRule]
    # authored documents may carry the codegen-only @mixin directive: validate them against a copy of the schema that knows it
    schema_val = schema_ref
    if case.get("mixins"):
        schema_val = build_schema(sdl + "\ndirective @mixin(from: String, import: String) repeatable on FIELD | FRAGMENT_DEFINITION\n")
    best = None
    for attempt in range(8):
        frs, ops, names, ofeats = generate_document(
            schema_ref, s * 31 + attempt, dirty, n_ops=case.get("n_ops", 3), max_depth=max(1, case.get("max_depth", 3) - attempt // 3),
            allow_subscription=cfg.get("async_client", True) or case.get("allow_sync_subscription", False),
            mixins=case.get("mixins"))
        text = "\n\n".join(frs + ops)
        try:
            doc_ = parse(text)
            if not validate(schema_val, doc_, rules):
                cand = (sdl, frs, ops, names, set(sfeats) | set(ofeats), schema_ref)
                # very large documents (thousands of generated classes) cost tens of seconds each: prefer a smaller one, keep the smallest as fallback.
                # Size is measured after inlining every fragment spread: that is what the generator unfolds into classes.
                size = max(len(text), 4 * expanded_size(doc_, schema_ref))
                if size <= case.get("max_doc_chars", 6000):
                    return cand
                if best is None or size < best[0]:
                    best = (size, cand)
        except Exception:  # noqa: BLE001
            continue
    return best[1] if best and best[0] <= 40 * case.get("max_doc_chars", 6000) else None


def expanded_size(doc, schema=None) -> int:
    """Rough number of class fields the generator will emit: selections after inlining fragment spreads, where the fields shared by all
    runtime types of an abstract position count once per type-conditioned branch (each branch becomes a class that repeats them)."""
    from graphql import FieldNode, FragmentDefinitionNode, FragmentSpreadNode, InlineFragmentNode, OperationDefinitionNode, get_named_type, is_abstract_type
    frags = {d.name.value: d for d in doc.definitions if isinstance(d, FragmentDefinitionNode)}

    def size(selset, t, stack=(), depth=0) -> int:
        if depth > 40:
            return 1
        shared, branches = 0, []
        for sel in selset.selections:
            if isinstance(sel, FieldNode):
                ft = None
                if schema is not None and t is not None and hasattr(t, "fields") and sel.name.value in t.fields:
                    ft = get_named_type(t.fields[sel.name.value].type)
                shared += 1 + (size(sel.selection_set, ft, stack, depth + 1) if sel.selection_set else 0)
            else:
                if isinstance(sel, FragmentSpreadNode):
                    name = sel.name.value
                    if name in stack or name not in frags:
                        continue
                    cond, inner, st = frags[name].type_condition.name.value, frags[name].selection_set, stack + (name,)
                else:
                    cond, inner, st = (sel.type_condition.name.value if sel.type_condition else None), sel.selection_set, stack
                ct = schema.type_map.get(cond) if (schema is not None and cond) else t
                n = size(inner, ct if ct is not None else t, st, depth + 1)
                if schema is not None and t is not None and cond and cond != getattr(t, "name", None) and is_abstract_type(t):
                    branches.append(n)
                else:
                    shared += n
        return shared * (len(branches) + 1) + sum(branches)

    total = 0
    for d in doc.definitions:
        if isinstance(d, OperationDefinitionNode):
            root = None
            if schema is not None:
                root = {"query": schema.query_type, "mutation": schema.mutation_type, "subscription": schema.subscription_type}[d.operation.value]
            total += size(d.selection_set, root)
        elif isinstance(d, FragmentDefinitionNode):
            total += size(d.selection_set, schema.type_map.get(d.type_condition.name.value) if schema is not None else None, (d.name.value,))
    return total


def case_features(case, feats: Set[str]) -> List[str]:
    cfg = case["cfg"]
    out = set(feats)
    out.add("config.snake_off" if cfg.get("convert_to_snake_case") is False else "config.snake_on")
    out.add("config.sync" if cfg.get("async_client") is False else "config.async")
    if cfg.get("opentelemetry_client"):
        out.add("config.otel_tracer" if cfg.get("_tracer") else "config.otel")
    if cfg.get("enable_custom_operations"):
        out.add("config.custom_ops")
    if cfg.get("files_to_include"):
        out.add("config.files_to_include")
    if cfg.get("client_name"):
        out.add("config.custom_names")
    if cfg.get("include_all_inputs") is False:
        out.add("config.prune")
    if case.get("n_ops", 3) > 5:
        out.add("scale.many_operations")
    return sorted(out)


def import_all_modules(pkg, pkg_dir: Path) -> List[Tuple[str, str]]:
    """Import every module of the generated package. -> [(module, error)]"""
    errs = []
    for f in sorted(pkg_dir.glob("*.py")):
        if f.name == "__init__.py":
            continue
        try:
            importlib.import_module("%s.%s" % (pkg.__name__, f.stem))
        except BaseException as e:  # noqa: BLE001
            errs.append((f.name, "%s: %s" % (type(e).__name__, str(e)[:300])))
    return errs


def models_of(pkg, pkg_dir: Path):
    from pydantic import BaseModel

    out = []
    for f in sorted(pkg_dir.glob("*.py")):
        if f.name == "__init__.py":
            continue
        m = sys.modules.get("%s.%s" % (pkg.__name__, f.stem))
        if m is None:
            continue
        for n, v in vars(m).items():
            if isinstance(v, type) and issubclass(v, BaseModel) and v.__module__ == m.__name__:
                out.append(v)
    return out


def check_loads(case, gen, pkg, feats) -> List[Violation]:
    """C04: everything emitted is valid Python that imports, models complete, __all__ exact, reported == written."""
    import ast as pyast

    vs: List[Violation] = []
    pkg_dir = gen.package_dir

    def v(clause, detail, mech=None):
        vs.append(Violation("C04", clause, detail, feats, case, mech or ("c04:" + clause)))

    written = sorted(p.name for p in pkg_dir.iterdir() if p.is_file())
    # (plugins may write files of their own - ExtractOperations does; the statement's option list does not include plugins)
    if not gen.config.get("plugins") and (sorted(gen.reported_files) != written or len(set(gen.reported_files)) != len(gen.reported_files)):
        v("reported-files", "reported %r, on disk %r" % (sorted(gen.reported_files), written))
    for p in pkg_dir.glob("*.py"):
        try:
            pyast.parse(p.read_text())
        except SyntaxError as e:
            v("valid-python", "%s: %s" % (p.name, e))
    # files_to_include: each listed file is in the package under its own name with its own bytes (whatever its suffix)
    for inc in (gen.config.get("files_to_include") or []):
        src = Path(inc) if os.path.isabs(inc) else pkg_dir.parent / inc
        if src.is_file() and not case.get("_included_edited"):
            dst = pkg_dir / src.name
            same = dst.is_file() and dst.read_bytes().endswith(src.read_bytes()) and all(
                (not l.strip()) or l.lstrip().startswith("#") for l in dst.read_bytes()[:len(dst.read_bytes()) - len(src.read_bytes())].decode("utf-8", "replace").splitlines())
            if not same:  # an include_comments header above the copy is the documented addition
                v("included-files-copied", "files_to_include entry %s: %s in the package" % (inc, "differs from its copy" if dst.is_file() else "is missing (package has %r)" % written))
    for name, err in import_all_modules(pkg, pkg_dir):
        v("module-imports", "%s: %s" % (name, err))
    for cls in models_of(pkg, pkg_dir):
        try:
            complete = cls.__pydantic_complete__
            if not complete:
                cls.model_rebuild()
                complete = cls.__pydantic_complete__
                v("models-built", "%s.%s was left incomplete by its module (a later model_rebuild succeeded: %s)" % (cls.__module__, cls.__name__, complete))
        except BaseException as e:  # noqa: BLE001
            if type(e).__name__ in ("PydanticInvalidForJsonSchema", "PydanticOmit"):
                continue
            v("models-built", "%s.%s: %s: %s" % (cls.__module__, cls.__name__, type(e).__name__, str(e)[:300]))
    all_ = getattr(pkg, "__all__", None)
    if all_ is None:
        v("dunder-all", "package has no __all__")
    else:
        if len(set(all_)) != len(all_):
            v("dunder-all", "duplicates in __all__: %r" % sorted(n for n in set(all_) if list(all_).count(n) > 1))
        tree = pyast.parse((pkg_dir / "__init__.py").read_text())
        bound = set()
        for node in tree.body:
            if isinstance(node, pyast.ImportFrom):
                bound.update(a.asname or a.name for a in node.names)
        if bound != set(all_):
            v("dunder-all", "__init__ binds %r not in __all__, __all__ lists %r not bound" % (sorted(bound - set(all_))[:8], sorted(set(all_) - bound)[:8]))
        for n in all_:
            if not hasattr(pkg, n):
                v("dunder-all", "__all__ name %r does not resolve" % n)
    return vs


def documented_refusal(case, gen, ops_text: List[str], cfg) -> Optional[str]:
    """If the generator refused, is it one of the documented refusals and is the cause really there?"""
    if not gen.exc_is_codegen:
        return None
    msg = str(gen.exception)
    if gen.exc_type == "NotSupported" and "Subscriptions are only available" in msg:
        if cfg.get("async_client") is False and any(o.lstrip().startswith("subscription") for o in ops_text):
            return "subscription-sync"
    if gen.exc_type == "ParsingError" and "Duplicated file names" in msg:
        return "duplicate-file-names"
    return None


def strict_scalar_names(case, schema_ref) -> List[str]:
    from graphql import GraphQLScalarType
    if not case.get("strict_scalars"):
        return []
    return sorted(n for n, t in schema_ref.type_map.items() if isinstance(t, GraphQLScalarType) and n not in oracles.BUILTIN)


def has_inline_fragment_on_interface(case, queries: str) -> bool:
    import re
    sdl = case.get("_sdl") or ""
    ifaces = set(re.findall(r"^interface (\w+)", sdl, re.M))
    conds = re.findall(r"\.\.\.\s*on\s+(\w+)", queries)
    if case.get("corpus"):
        conds += re.findall(r"fragment\s+\w+\s+on\s+(\w+)", queries)  # a named fragment on a sub-interface spread at the super-interface's position is the same construct
    return any(m in ifaces for m in conds)


def interface_fragment_keys(case, queries: str) -> Set[str]:
    """Response keys selected (at any depth) inside inline fragments / fragment definitions whose type condition is an interface of the case's schema."""
    import re as _re

    from graphql import FieldNode, FragmentDefinitionNode, InlineFragmentNode, Visitor, parse, visit
    ifaces = set(_re.findall(r"^interface (\w+)", case.get("_sdl") or "", _re.M))
    out: Set[str] = set()
    try:
        doc = parse(queries)
    except Exception:  # noqa: BLE001
        return out

    def collect(selset):
        for sel in selset.selections:
            if isinstance(sel, FieldNode):
                out.add(sel.alias.value if sel.alias else sel.name.value)
            if getattr(sel, "selection_set", None):
                collect(sel.selection_set)

    class V(Visitor):
        def enter(self, node, *_):
            tc = getattr(node, "type_condition", None)
            if isinstance(node, (InlineFragmentNode, FragmentDefinitionNode)) and tc is not None and tc.name.value in ifaces:
                collect(node.selection_set)

    visit(doc, V())
    return out


def merged_composite_keys(queries: str) -> Set[str]:
    """Response keys under which one selection scope (after flattening inline fragments and fragment spreads) selects a field with sub-selections more than once."""
    from graphql import FieldNode, FragmentDefinitionNode, FragmentSpreadNode, parse
    out: Set[str] = set()
    try:
        doc = parse(queries)
    except Exception:  # noqa: BLE001
        return out
    frags = {d.name.value: d for d in doc.definitions if isinstance(d, FragmentDefinitionNode)}

    def flat(selset, stack=()):
        for sel in selset.selections:
            if isinstance(sel, FieldNode):
                yield sel
            elif isinstance(sel, FragmentSpreadNode):
                if sel.name.value in frags and sel.name.value not in stack:
                    yield from flat(frags[sel.name.value].selection_set, stack + (sel.name.value,))
            else:
                yield from flat(sel.selection_set, stack)

    def scope(selset, depth=0):
        by_key: Dict[str, list] = {}
        for f in flat(selset):
            if f.selection_set is not None:
                by_key.setdefault(f.alias.value if f.alias else f.name.value, []).append(f)
        for k, fs in by_key.items():
            if len(fs) > 1:
                out.add(k)
            if depth < 12:
                for f in fs:
                    scope(f.selection_set, depth + 1)

    for d in doc.definitions:
        scope(d.selection_set)
    return out


def relabel_string_literal_findings(case, queries: str, violations: List[Violation]) -> None:
    """Listed findings about GraphQL string literals are keyed by the literal class the document really contains."""
    import re
    dirty = set(case.get("dirty", []))
    if "sel.field_merge" in dirty:
        # listed: a composite field selected twice under one response key. The class for that key is generated from the first selection alone, so
        # everything the response holds BELOW such a key (and nothing else) is governed by the listed mechanism.
        merged = merged_composite_keys(queries)

        def keys_of(path_text: str) -> List[str]:
            return re.findall(r"'([^']+)'", path_text)

        def below_merged(keys: List[str], own: bool = False) -> bool:
            return any(k in merged for k in (keys if own else keys[:-1]))
        dropped_ops: Set[str] = set()
        c01_order = {"key-exposed": 0, "typename-field": 0, "typename-literal": 0, "accepted": 0}
        for v in sorted(violations, key=lambda v_: c01_order.get(v_.clause, 1)):
            if not merged:
                break
            op = v.detail.split(" [", 1)[0]
            if v.prop == "C01" and v.clause in ("key-exposed", "typename-field", "typename-literal", "auto-typename", "value-equal", "object-shape") and v.mech == "c01:" + v.clause:
                mk = re.search(r"\]: \((.*?)\): ", v.detail)
                if mk and below_merged(keys_of(mk.group(1)), own=True):
                    v.mech = "composite-field-selected-twice-under-one-key"
                    dropped_ops.add(op)
            elif v.prop == "C01" and v.clause == "accepted" and v.mech == "c01:accepted:ValidationError":
                # every error location pydantic lists must lie below a merged key
                locs = [l.strip() for l in v.detail.split("\nresponse:")[0].splitlines()[1:] if l and not l.startswith(" ") and "[type=" not in l and "validation error" not in l]
                locs = [l for l in locs if re.fullmatch(r"[\w.]+", l)]
                if locs and all(below_merged([t for t in l.split(".") if not t.isdigit()], own=True) for l in locs):
                    v.mech = "composite-field-selected-twice-under-one-key"
                    dropped_ops.add(op)
            elif v.prop == "C01" and v.clause == "round-trip" and v.mech == "c01:round-trip" and op in dropped_ops:
                v.mech = "composite-field-selected-twice-under-one-key"
            elif v.prop == "C05" and v.mech.startswith("c05:accepted:"):
                m_ = re.search(r" at \((.*?)\) was accepted", v.detail)
                if m_ and below_merged(keys_of(m_.group(1))):
                    v.mech = "composite-field-selected-twice-lax"
    has_single = bool(re.search(r'"[^"\n]*\'[^"\n]*"', queries))
    has_block = '"""' in queries
    has_escape = bool(re.search(r'"[^"\n]*\\[nt][^"\n]*"', queries))
    if ({"frag.inline.on_interface", "frag.inline.on_same_abstract"} & dirty) and has_inline_fragment_on_interface(case, queries):
        # D18: inline fragment on an interface inside an abstract selection
        dropped_ops: Set[str] = set()
        for v in sorted(violations, key=lambda v_: 0 if v_.clause == "key-exposed" else 1):
            if v.prop == "C01" and v.clause == "key-exposed":
                # fields dropped (never a rejected response: that is a different failure), and only fields selected inside an interface-conditioned fragment
                mk = re.search(r"response key '([^']+)' is carried by 0 fields", v.detail)
                if mk and mk.group(1) in interface_fragment_keys(case, queries):
                    v.mech = "inline-fragment-on-interface-drops-fields"
                    dropped_ops.add(v.detail.split(" [", 1)[0])
            elif v.prop == "C01" and v.clause == "round-trip" and v.detail.split(" [", 1)[0] in dropped_ops:
                v.mech = "inline-fragment-on-interface-drops-fields"  # the dump of an object that lost those fields cannot reproduce the response
            elif v.prop == "C04" and v.clause == "generation-typed-refusal-on-valid-input" and "ParsingError" in v.mech and "not found in type" in v.detail:
                v.mech = "inline-fragment-on-interface-parsing-error"
            elif v.prop == "C05" and (v.clause.startswith("rejects-k") or v.clause in ("rejects-null-at-nonnull", "annotation-image")):
                # the listed laxness concerns only what is selected INSIDE a fragment whose type condition is an interface: the corrupted key must be one of those
                keys_in_iface_frags = interface_fragment_keys(case, queries)
                m_ = re.search(r" at \((.*?)\) was accepted", v.detail)
                last_key = None
                if m_:
                    ks = re.findall(r"'([^']+)'", m_.group(1))
                    last_key = ks[-1] if ks else None
                if v.clause == "annotation-image" or last_key is None or last_key in keys_in_iface_frags:
                    v.mech = "inline-fragment-on-interface-lax"
    if "frag.inline.on_same_abstract" in dirty:
        unions = set(re.findall(r"^union (\w+)", case.get("_sdl") or "", re.M))
        if any(m_ in unions for m_ in re.findall(r"\.\.\.\s*on\s+(\w+)", queries)):
            for v in violations:
                if (v.prop == "C04" and v.clause == "generation-internal-error" and v.mech.endswith(":AttributeError")
                        and "'GraphQLUnionType' object has no attribute 'fields'" in v.detail and "_get_field_from_schema" in v.detail):
                    v.mech = "inline-fragment-on-union-attribute-error"
    for v in violations:
        if v.prop == "C04" and v.clause == "generation-internal-error" and "InvalidInput" in v.mech and (
                ("strlit.single_quote" in dirty and has_single) or ("strlit.block" in dirty and has_block)):
            v.mech = "string-literal-quote-or-block-breaks-generation"
        if v.prop == "C02" and "strlit.escape_n" in dirty and has_escape and v.clause in ("arguments", "sent-parses", "sent-valid", "variable-definitions"):
            # for a difference in argument / default values the authored side must really hold a line break or tab (what the escape denotes)
            if v.clause in ("sent-parses", "sent-valid") or "\\n" in v.detail or "\\t" in v.detail:
                v.mech = "string-literal-newline-escape-altered"


BYTECODE_PROBE = """
import asyncio, importlib, json, sys
import httpx
sys.path.insert(0, sys.argv[1])
pkg = importlib.import_module("graphql_client")
captured = []
def handler(request):
    captured.append(json.loads(request.content))
    return httpx.Response(200, json={"data": {"user": None}})
if sys.argv[2] == "sync":
    pkg.Client(url="http://x.test/", http_client=httpx.Client(transport=httpx.MockTransport(handler))).get_user()
else:
    asyncio.run(pkg.Client(url="http://x.test/", http_client=httpx.AsyncClient(transport=httpx.MockTransport(handler))).get_user())
print(json.dumps(captured[0]["query"]))
"""


def bytecode_history_worker(case: Dict[str, Any]) -> CaseResult:
    """A history across interpreters: generate, let an application import the package (Python caches its bytecode next to the sources), edit a string literal of an
    operation WITHOUT changing its length, generate again into the same target, and let a new interpreter import and call: the document sent must be the edited one."""
    import subprocess
    import time

    from ..genpkg import run_cli, write_case
    sdl = "type Query {\n  user(name: String): User\n}\n\ntype User {\n  id: ID\n}\n"
    q = 'query GetUser { user(name: "%s") { id } }'
    cfg_full = dict(case["cfg"])
    mode = "sync" if cfg_full.get("async_client") is False else "async"
    env = {k: v for k, v in os.environ.items() if k != "PYTHONDONTWRITEBYTECODE"}
    violations: List[Violation] = []
    stats: Dict[str, Any] = {}
    with core.Scratch() as root:
        sent = []
        for word in ("alpha", "omega"):
            cfg = write_case(root, sdl, q % word, cfg_full)
            with warnings.catch_warnings():
                warnings.simplefilter("ignore")
                g = run_cli(root, "client", cfg)
            if not g.ok:
                return CaseResult("inconclusive", note="generation failed: %s" % g.exc_type)
            p = subprocess.run(["/venv/bin/python", "-c", BYTECODE_PROBE, str(root), mode], capture_output=True, text=True, env=env, timeout=120)
            if p.returncode != 0:
                return CaseResult("inconclusive", note="probe interpreter failed: " + p.stderr[-300:])
            sent.append(json.loads(p.stdout.strip().splitlines()[-1]))
            stats["bytecode_history_steps"] = stats.get("bytecode_history_steps", 0) + 1
            if word == "alpha":
                if not list((root / "graphql_client").glob("__pycache__/*.pyc")):
                    return CaseResult("inconclusive", note="the probe interpreter cached no bytecode")
                time.sleep(1.2)  # cached bytecode is validated by whole seconds of the source's modification time: the edit happens in a later second
        if '"omega"' not in sent[1] or '"alpha"' in sent[1]:
            violations.append(Violation("C02", "regenerated-document-is-the-one-sent", "after editing the literal \"alpha\" to \"omega\" and generating again into the same target, a new interpreter "
                                        "(bytecode caching on, as applications run) still sends: %s" % sent[1][:300], ["history.bytecode_cache", "config." + mode], dict(case), mech="c02:stale-after-regeneration"))
    return CaseResult("violated" if violations else "held", [v.to_json() for v in violations], stats, {"features": ["history.bytecode_cache", "config." + mode]})


def worker(case: Dict[str, Any]) -> CaseResult:
    from graphql import OperationDefinitionNode, parse

    if case.get("kind") == "bytecode-history":
        return bytecode_history_worker(case)

    from ..deps import make_tracer
    from ..genpkg import RefServer, call_method, find_methods, import_package, make_client, patched_ws, probe_param_map, run_cli, write_case
    from ..world import World

    props = set(case.get("props", ["C01", "C02", "C04", "C05"]))
    stats: Dict[str, Any] = {}
    sets: Dict[str, List[str]] = {}
    violations: List[Violation] = []

    def count(k, n=1):
        stats[k] = stats.get(k, 0) + n

    built = build_inputs(case)
    if built is None:
        return CaseResult("inconclusive", note="generator could not produce a valid schema/document", stats={"gen_invalid": 1})
    sdl, frs, ops, names, feats, schema_ref = built
    feats = case_features(case, feats)
    cfg_full = dict(case["cfg"])
    use_tracer = cfg_full.pop("_tracer", False)
    queries = "\n\n".join(frs + ops)
    authored = parse(queries)
    extra_files = dict(case.get("extra_files") or {})
    if case.get("collide") == "fragments-module" and names and frs:
        # the fragments module is given the very name an operation's module gets: one of the documented refusals (colliding file names), or both usable
        import re as _re
        cfg_full["fragments_module_name"] = "_".join(w.lower() for w in _re.findall(r"[A-Z]?[a-z]+|[A-Z]+(?=[A-Z][a-z]|\d|\W|_|$)|\d+", names[0]))
        feats = list(feats) + ["collision.fragments_module_vs_operation"]
    elif case.get("collide") == "included-exceptions":
        extra_files["exceptions.py"] = "class NotLoaded(Exception):\n    pass\n"
        cfg_full["files_to_include"] = list(cfg_full.get("files_to_include", [])) + ["exceptions.py"]
        feats = list(feats) + ["collision.included_file_vs_bundled"]
    strict = strict_scalar_names(case, schema_ref)
    if strict:
        # every custom scalar configured as str + a parse function that is the identity on values and refuses None: values, round trip and
        # annotations stay comparable, and a parse call for null (which the statement forbids) turns a conformant response into a rejection
        extra_files["vf_csm.py"] = "def parse_strict(value):\n    if value is None:\n        raise ValueError('parse called with None')\n    return value\n"
        cfg_full["scalars"] = {n: {"type": "str", "parse": ".vf_csm.parse_strict"} for n in strict}
        cfg_full["files_to_include"] = list(cfg_full.get("files_to_include", [])) + ["vf_csm.py"]
        feats = list(feats) + ["scalar.config.strict_parse"]
    with core.Scratch() as root:
        if "C04" in props and case["idx"] % 12 == 9 and not case.get("corpus") and len(frs + ops) > 1:
            # operations and fragments spread over a directory (three extensions, a nested folder, a dot-named folder), named through a `..` component
            exts = [".graphql", ".gql", ".graphqls"]
            qfiles = {("%s%s%d%s" % (["", "nested/", ".drafts/"][k_ % 3], "ops" if d_ in ops else "frag", k_, exts[k_ % 3])): d_ for k_, d_ in enumerate(frs + ops)}
            (root / "conf").mkdir(exist_ok=True)
            cfg = write_case(root, sdl, None, dict(cfg_full, queries_path="conf/../queries_dir"), query_files=qfiles, extra_files=extra_files or None)
            feats.append("source.queries_directory")
        else:
            cfg = write_case(root, sdl, queries, cfg_full, extra_files=extra_files or None)
        if case["idx"] % 5 == 1 and not case.get("config_rel"):
            from ..genpkg import plant_stale_bundled_copies
            stats["stale_bundled_copies_planted"] = plant_stale_bundled_copies(root, cfg)  # the target holds another release's copies: they must be replaced
        if case["idx"] % 4 == 3:
            # something was generated in this interpreter before: the same inputs with nothing configured
            from ..genpkg import DECOY_KINDS, decoy_generations
            stats["decoy_generations_before"] = decoy_generations(root, sdl, queries, kind=DECOY_KINDS[(case["idx"] // 4) % 4],
                                                                      config={k_: cfg_full[k_] for k_ in ("enable_custom_operations", "plugins", "convert_to_snake_case", "async_client", "opentelemetry_client") if k_ in cfg_full})
        with warnings.catch_warnings():
            warnings.simplefilter("ignore")
            # every 6th C04 case invokes the command the way the README shows it first: without a strategy argument
            bare = "C04" in props and case["idx"] % 6 == 0 and "strategy" not in case
            gen = run_cli(root, None if bare else case.get("strategy", "client"), cfg, config_rel=case.get("config_rel"))
            if bare:
                feats.append("cli.no_strategy_argument")
            if case.get("config_rel"):
                feats.append("cli.config_option")
        replay_case = dict(case)
        replay_case["_sdl"] = sdl
        replay_case["_queries"] = queries
        if not gen.ok:
            refusal = documented_refusal(case, gen, ops, cfg_full)
            if refusal:
                count("documented_refusal." + refusal)
                return CaseResult("held", stats=stats, sets={"features": feats})
            if "C04" in props:
                kind = "typed-refusal-on-valid-input" if gen.exc_is_codegen else "internal-error"
                if bare and gen.exception is None and gen.exit_code == 2:
                    violations.append(Violation("C04", "default-strategy-invocation", "`ariadne-codegen` without a strategy argument exits %d: %s" % (gen.exit_code, gen.stdout[-300:]),
                                                feats, replay_case, mech="c04:default-strategy-invocation"))
                    return CaseResult("violated", [v.to_json() for v in violations], stats, {"features": feats})
                pass
                violations.append(Violation("C04", "generation-" + kind, "valid input, generation failed with %s: %s\n%s" % (
                    gen.exc_type or ("exit code %d" % gen.exit_code), str(gen.exception)[:300], gen.traceback[-1200:] if not gen.exc_is_codegen else (gen.stdout[-300:])),
                    feats, replay_case, mech="c04:generation-%s:%s" % (kind, gen.exc_type)))
                relabel_string_literal_findings(dict(case, _sdl=sdl), queries, violations)
                return CaseResult("violated", [v.to_json() for v in violations], stats, {"features": feats})
            return CaseResult("inconclusive", note="generation failed (%s) - C04's concern" % gen.exc_type, stats={"generation_failed": 1})
        count("generated")
        try:
            pkg = import_package(gen.package_dir.parent, cfg.get("target_package_name", "graphql_client"))
        except BaseException as e:  # noqa: BLE001
            if "C04" in props:
                import traceback as tb
                violations.append(Violation("C04", "package-imports", "generated package does not import: %s: %s\n%s" % (type(e).__name__, str(e)[:300], tb.format_exc()[-800:]),
                                            feats, replay_case, mech="c04:package-imports:" + type(e).__name__))
                return CaseResult("violated", [v.to_json() for v in violations], stats, {"features": feats})
            return CaseResult("inconclusive", note="package import failed (%s: %s) - C04's concern" % (type(e).__name__, str(e)[:200]), stats={"import_failed": 1})
        count("imported")
        if "C04" in props:
            violations.extend(check_loads(replay_case, gen, pkg, feats))
            count("c04_load_checks")
            if case.get("extra_files") and cfg.get("files_to_include") and not case.get("_no_regen"):
                # a two-step history: the user edits an included file and generates again into the same directory
                inc = root / cfg["files_to_include"][0]
                new_src = inc.read_text() + "\n\nclass AddedLater:\n    marker = %d\n" % case["idx"]
                inc.write_text(new_src)
                with warnings.catch_warnings():
                    warnings.simplefilter("ignore")
                    gen2 = run_cli(root, case.get("strategy", "client"), cfg)
                count("c04_regenerations")
                if not gen2.ok:
                    violations.append(Violation("C04", "regenerates", "second generation into the same directory failed: %s: %s" % (gen2.exc_type, str(gen2.exception)[:300]), feats,
                                                replay_case, mech="c04:regenerates"))
                else:
                    copied = (gen2.package_dir / inc.name).read_text()
                    if "AddedLater" not in copied or "marker = %d" % case["idx"] not in copied:
                        violations.append(Violation("C04", "regeneration-writes-reported-files", "after editing %s and generating again, the package still holds the old copy "
                                                    "although the file is in the reported list %r" % (inc.name, gen2.reported_files[:6]), feats, replay_case,
                                                    mech="c04:regeneration-stale-copy"))
                    written = sorted(p_.name for p_ in gen2.package_dir.iterdir() if p_.is_file())
                    if sorted(gen2.reported_files) != written:
                        violations.append(Violation("C04", "reported-files", "after regeneration: reported %r, on disk %r" % (sorted(gen2.reported_files), written), feats, replay_case,
                                                    mech="c04:reported-files"))
        if props & {"C01", "C02", "C05"}:
            server = RefServer(schema_ref)
            tracer = make_tracer() if use_tracer else None
            client, is_async = make_client(pkg, cfg, server, tracer)
            methods = find_methods(pkg, cfg, names)
            rng = random.Random(case["seed"] * 7 + case["idx"])
            op_nodes = {d.name.value: d for d in authored.definitions if isinstance(d, OperationDefinitionNode)}
            thorough = case.get("tier") == "thorough"
            for op_name in names:
                mname = methods.get(op_name)
                if mname is None:
                    if "C04" in props:
                        violations.append(Violation("C04", "method-exists", "no client method found for operation %s" % op_name, feats, replay_case, mech="c04:method-exists"))
                    continue
                opnode = op_nodes[op_name]
                is_sub = opnode.operation.value == "subscription"
                rpaths = oracles.response_paths(authored, opnode)
                pmap = probe_param_map(client, is_async, mname, server, is_sub)
                modes = [("full", 0), ("full", 1), ("full", 2), ("nulls", 0), ("allnull", 0), ("empty", 0), ("single", 1)]
                modes += [("sweep:%d" % k, k) for k in range(8 if thorough else 3)]
                if thorough:
                    modes += [("nulls", 3), ("nulls", 4), ("full", 3), ("full", 4)]
                for wi, (mode, rot) in enumerate(modes):
                    world = World(schema_ref, seed=case["seed"] * 1000 + wi, mode=mode, rotation=rot)
                    server.world = world
                    n_before = len(server.captured)
                    kwargs = argument_values(opnode, schema_ref, pkg, cfg, rng, pmap)
                    if kwargs is None:
                        count("ops_skipped_unbuildable_args")
                        break
                    if is_sub:
                        with patched_ws(client, server, [world]):
                            status, value = call_method(client, is_async, mname, kwargs)
                    else:
                        status, value = call_method(client, is_async, mname, kwargs)
                    count("calls")
                    if len(server.captured) != n_before + 1:
                        if status == "exc":
                            # the call died before anything was sent (e.g. argument serialisation): C03's concern
                            count("calls_failed_before_send")
                            continue
                        violations.append(Violation("C02", "one-request", "%s: %d requests for one call" % (op_name, len(server.captured) - n_before), feats, replay_case, mech="c02:one-request"))
                        continue
                    body = server.captured[-1]
                    resp = server.responses[-1] if server.responses else {}
                    verrs = server.validation_errors[-1] if server.validation_errors else []
                    if wi == 0 and "C02" in props:
                        probs, dstats = docoracle.check_sent_document(schema_ref, authored, op_name, body.get("query"), body.get("operationName"))
                        for k, n in dstats.items():
                            count("c02." + k, n)
                        count("c02.documents_checked")
                        for clause, detail in probs:
                            violations.append(Violation("C02", clause, "%s: %s\nsent: %s" % (op_name, detail, str(body.get("query"))[:600]), feats, replay_case, mech="c02:" + clause))
                    if verrs:
                        count("sent_query_invalid")
                        continue  # C02 reports it; nothing to say about responses
                    if resp.get("errors"):
                        count("reference_server_errors")
                        continue  # the reference server itself failed to produce a clean response: inconclusive for this world
                    data = resp["data"]
                    sets.setdefault("world_modes", []).append(mode)
                    if is_sub:
                        if status == "ok" and isinstance(value, list) and len(value) == 1:
                            value = value[0]
                        elif status == "ok":
                            violations.append(Violation("C01", "subscription-yields", "%s: expected one yielded item, got %r" % (op_name, value), feats, replay_case, mech="c01:subscription-yields"))
                            continue
                    if "C01" in props:
                        count("c01.responses")
                        if status == "exc":
                            violations.append(Violation("C01", "accepted", "%s [%s]: conformant response rejected: %s: %s\nresponse: %s" % (
                                op_name, mode, type(value).__name__, str(value)[:700], json.dumps(data)[:700]), feats, replay_case,
                                mech="c01:accepted:" + type(value).__name__))
                        else:
                            out: List[Tuple[str, str]] = []
                            wstats: Dict[str, int] = {}
                            oracles.walk(value, data, (), world.types, out, wstats, schema_ref, pyname=python_name_fn(cfg))
                            for k, n in wstats.items():
                                count("c01." + k, n)
                            try:
                                dumped = json.loads(json.dumps(value.model_dump(mode="json", by_alias=True, exclude_unset=True)))
                                if dumped != data:
                                    out.append(("round-trip", "model_dump(by_alias, exclude_unset) != response\n dumped: %s\n data:   %s" % (json.dumps(dumped, sort_keys=True)[:600], json.dumps(data, sort_keys=True)[:600])))
                            except BaseException as e:  # noqa: BLE001
                                out.append(("round-trip", "model_dump failed: %s: %s" % (type(e).__name__, str(e)[:300])))
                            for clause, detail in out[:6]:
                                violations.append(Violation("C01", clause, "%s [%s]: %s" % (op_name, mode, detail), feats, replay_case, mech="c01:" + clause))
                            for at, used in world.runtime_types_used.items():
                                for u in used:
                                    sets.setdefault("abstract_runtime_types", []).append("%s->%s" % (at, u))
                    if "C05" in props and status == "ok" and wi in (0, 1, 3):
                        c05_checks(case, replay_case, feats, value, data, world, rpaths, schema_ref, pkg, cfg, rng, violations, count, op_name, thorough,
                                   fragment_names=[d.name.value for d in authored.definitions if not isinstance(d, OperationDefinitionNode)],
                                   authored_doc=authored, opnode=opnode)
            if tracer is not None and tracer.open_spans():
                violations.append(Violation("C01", "spans-closed", repr(tracer.open_spans())[:200], feats, replay_case, mech="c01:spans-closed"))
    relabel_string_literal_findings(dict(case, _sdl=sdl), queries, violations)
    status = "violated" if violations else "held"
    sample = None
    if case["idx"] < 2:
        sample = {"schema_sdl_head": sdl[:600], "operations": [o[:400] for o in ops], "config": case["cfg"]}
    sets["features"] = feats
    return CaseResult(status, [v.to_json() for v in violations if v.prop in props], stats, sets, sample=sample)


def python_name_fn(cfg):
    """The Python name of a response key under this configuration, by the repository's own name mapping (whose laws C18 checks separately)."""
    from ariadne_codegen.utils import process_name

    snake = cfg.get("convert_to_snake_case", True)

    def f(key: str):
        if key == "__typename":
            return "typename__"
        name = process_name(key, convert_to_snake_case=snake, trim_leading_underscore=True, handle_pydantic_resrved_field_names=True)
        return name if name.isidentifier() else None

    return f


def obj_at(value, path):
    from pydantic import BaseModel
    cur = value
    for p in path:
        if isinstance(p, int):
            if not isinstance(cur, list) or p >= len(cur):
                return None
            cur = cur[p]
        else:
            if not isinstance(cur, BaseModel):
                return None
            names = oracles.wire_map(type(cur)).get(p, [])
            if len(names) != 1:
                return None
            cur = getattr(cur, names[0])
    return cur


def abstract_type_conditions(doc, schema) -> Set[str]:
    from graphql import FragmentDefinitionNode, InlineFragmentNode, Visitor, is_abstract_type, visit
    out: Set[str] = set()

    class V(Visitor):
        def enter(self, node, *_):
            if isinstance(node, (InlineFragmentNode, FragmentDefinitionNode)) and node.type_condition is not None:
                t = schema.type_map.get(node.type_condition.name.value)
                if t is not None and is_abstract_type(t):
                    out.add(node.type_condition.name.value)

    visit(doc, V())
    return out


def obj_at_raw(data, path):
    cur = data
    for p in path:
        cur = cur[p]
    return cur


def c05_checks(case, replay_case, feats, value, data, world, rpaths, schema_ref, pkg, cfg, rng, violations, count, op_name, thorough, fragment_names=(),
               authored_doc=None, opnode=None):
    from graphql import GraphQLScalarType
    from pydantic import ValidationError

    model_cls = type(value)
    strict = strict_scalar_names(case, schema_ref)
    custom_any = {n for n, t in schema_ref.type_map.items() if isinstance(t, GraphQLScalarType) and n not in oracles.BUILTIN and n not in strict}
    static_types = oracles.static_field_types(authored_doc, opnode, schema_ref) if authored_doc is not None else None
    near = set()
    if authored_doc is not None:
        from graphql import FragmentDefinitionNode, InlineFragmentNode, is_abstract_type as _iat2, visit as _visit, Visitor as _Visitor

        class _TC(_Visitor):
            def enter(self, node, *_):
                tc = getattr(node, "type_condition", None)
                if isinstance(node, (InlineFragmentNode, FragmentDefinitionNode)) and tc is not None:
                    t_ = schema_ref.type_map.get(tc.name.value)
                    if t_ is not None:
                        near.update(o.name for o in schema_ref.get_possible_types(t_)) if _iat2(t_) else near.add(t_.name)

        _visit(authored_doc, _TC())
    for kind, path, corrupted in oracles.corruptions(data, world.types, rpaths, custom_any, 40 if thorough else 16, rng, static_types, schema_ref, near):
        count("c05.corruptions")
        count("c05.kind." + kind)
        try:
            model_cls.model_validate(corrupted)
        except ValidationError:
            count("c05.rejected")
            continue
        except BaseException as e:  # noqa: BLE001
            violations.append(Violation("C05", "rejects-with-validation-error", "%s: corruption %s at %r raised %s instead of ValidationError" % (op_name, kind, path, type(e).__name__),
                                        feats, replay_case, mech="c05:other-exception"))
            continue
        mech = "c05:accepted:" + kind
        if kind == "typename-not-possible":
            holder = obj_at(value, path[:-1])
            bad_name = obj_at_raw(corrupted, path)
            from graphql import get_named_type as _gnt, is_abstract_type as _iat
            bad_type = schema_ref.type_map.get(bad_name) if isinstance(bad_name, str) else None
            if bad_type is not None and _iat(bad_type):
                pos_t = oracles.type_at(world.types, path[:-1])
                fp = path[:-1]
                while fp and isinstance(fp[-1], int):
                    fp = fp[:-1]
                own = {_gnt(pos_t).name} if pos_t is not None else set()
                own |= {n.strip("[]!") for n in ((static_types or {}).get(oracles.key_path(fp)) or ())}
                if bad_name in own:
                    mech = "typename-literal-includes-abstract-type-name"
                elif authored_doc is not None and bad_name in abstract_type_conditions(authored_doc, schema_ref):
                    # a class generated for a type condition on an abstract type (`... on <Interface>`, written inline or arriving through an unpacked
                    # named fragment on a sub-interface / union) carries Literal["<that abstract type's name>"]: the same listed mechanism
                    mech = "typename-literal-includes-abstract-type-name"
            if holder is not None:
                names = oracles.wire_map(type(holder)).get(path[-1], [])  # "__typename" or its alias
                if len(names) == 1 and type(holder).model_fields[names[0]].annotation in (str, typing.Optional[str]):  # Optional when the fragment holds it under a condition
                    owner = next((c for c in type(holder).__mro__ if names[0] in getattr(c, "__annotations__", {})), None)
                    frag_names = {"".join(p[:1].upper() + p[1:] for p in n.split("_")) for n in fragment_names}
                    if owner is not None and owner.__name__ in frag_names and owner.__module__.endswith("." + cfg.get("fragments_module_name", "fragments")):
                        mech = "typename-str-at-fragment-root"
        extra = ""
        if kind == "typename-not-possible":
            try:
                acc = obj_at(model_cls.model_validate(corrupted), path[:-1])
                extra = " (__typename %r; the object was validated by class %s, bases %s)" % (
                    obj_at_raw(corrupted, path), type(acc).__name__, [b.__name__ for b in type(acc).__mro__[1:4]])
            except BaseException:  # noqa: BLE001
                pass
        violations.append(Violation("C05", "rejects-" + kind, "%s: payload corrupted by %s at %r was accepted by %s%s\ncorrupted: %s" % (
            op_name, kind, path, model_cls.__name__, extra, json.dumps(corrupted)[:600]), feats, replay_case, mech=mech))
    # annotation image, for every (class, field) reached in this response
    enums_mod = sys.modules.get("%s.%s" % (pkg.__name__, cfg.get("enums_module_name", "enums")))
    seen = set()

    def visit(obj, raw, path):
        from pydantic import BaseModel
        if isinstance(raw, list) and isinstance(obj, list):
            for i, (o, r) in enumerate(zip(obj, raw)):
                visit(o, r, path + (i,))
            return
        if not isinstance(raw, dict) or not isinstance(obj, BaseModel):
            return
        wm = oracles.wire_map(type(obj))
        for k, v in raw.items():
            names = wm.get(k, [])
            if len(names) != 1:
                continue
            fname = names[0]
            p = path + (k,)
            key = (type(obj), fname)
            if key not in seen and k != "__typename":
                seen.add(key)
                t = world.types.get(p)
                info = rpaths.get(oracles.key_path(p))
                st_ = (static_types or {}).get(oracles.key_path(p))
                if t is not None and info is not None and info["count"] == 1 and (static_types is None or st_ == {str(t)}):
                    conditional = info["field_directive"] or info["conditional"]  # directly, or through a conditional fragment it sits in
                    try:
                        hints = typing.get_type_hints(type(obj), include_extras=True)
                        ann = hints[fname]
                    except BaseException as e:  # noqa: BLE001
                        ann = type(obj).model_fields[fname].annotation
                    count("c05.annotations_checked")
                    miss = oracles.match_annotation(ann, t, conditional, enums_mod, {n: str for n in strict}, "%s.%s" % (type(obj).__name__, fname), schema_ref)
                    if miss and miss.startswith("typename-literal-foreign-type"):
                        violations.append(Violation("C05", "typename-literal-foreign-type", "%s: %s" % (op_name, miss), feats, replay_case, mech="c05:typename-literal-foreign-type"))
                    elif miss:
                        violations.append(Violation("C05", "annotation-image", "%s: %s (GraphQL type %s)" % (op_name, miss, t), feats, replay_case, mech="c05:annotation-image"))
            visit(getattr(obj, fname), v, p)

    visit(value, data, ())


def argument_values(opnode, schema_ref, pkg, cfg, rng, pmap, custom_scalar_values=None) -> Optional[Dict[str, Any]]:
    """Minimal schema-valid Python arguments for an operation's variables (C03 explores argument space properly)."""
    from ..values import ValueGen, python_args

    vg = ValueGen(schema_ref, rng, custom_scalar_values=custom_scalar_values)
    tree = vg.variables(opnode, minimal=True)
    try:
        return python_args(pkg, cfg, opnode, tree, schema_ref, by_alias=True, pmap=pmap)
    except Exception:  # noqa: BLE001
        return None


# --------------------------------------------------------------------------- driver used by c01/c02/c04/c05


def corpus_cases(prop: str, tier: str) -> List[Dict[str, Any]]:
    """The repository's own example projects (tests/main/clients/*) as fixed cases: ordinary use must keep working whatever else is explored.
    Only the inputs are taken from there (schema, operations, configuration, included files); the generator is the tree under test."""
    import toml
    from graphql import parse, print_ast
    base = Path("/repo/tests/main/clients")
    out: List[Dict[str, Any]] = []
    if not base.is_dir():
        return out
    for d in sorted(base.iterdir()):
        pp = d / "pyproject.toml"
        if not pp.is_file() or d.name in ("remote_schema", "invalid_pyprojects"):
            continue
        try:
            cfg = dict(toml.load(pp)["tool"]["ariadne-codegen"])
            sdl = (d / cfg.pop("schema_path")).read_text(encoding="utf-8")
            qp = cfg.pop("queries_path", None)
            queries = "\n\n".join(print_ast(x) for x in parse((d / qp).read_text(encoding="utf-8")).definitions) if qp else ""
        except Exception:  # noqa: BLE001
            continue
        drives = prop != "C04"
        if drives and (cfg.get("scalars") or cfg.get("plugins") or not queries or cfg.get("base_client_file_path")):
            continue  # driven only where the reference server's token values are conformant for the configuration
        extra = {}
        for rel in list(cfg.get("files_to_include") or []) + ([cfg["base_client_file_path"]] if cfg.get("base_client_file_path") else []):
            if (d / rel).is_file():
                extra[rel] = (d / rel).read_text(encoding="utf-8")
        cfg.pop("include_comments", None)
        case = {"seed": 0, "idx": 900000 + len(out), "dirty": ["frag.inline.on_interface"], "cfg": cfg, "props": [prop], "tier": tier, "corpus": d.name, "_sdl": sdl, "_queries": queries,
                "_features": ["corpus." + d.name], "_no_regen": True}
        if extra:
            case["extra_files"] = extra
        out.append(case)
    # the harness's own corpus of shapes in which what one operation needs depends on what another one already made the generator do (fragments shared in part,
    # unpacked here and inherited there, conditional here and plain there, root-type fragments, one union walked with different member sets): every document is run
    # in its written order, reversed, and in seeded shuffles of its definitions - each operation's behaviour must be the same in all of them
    import random as _random
    own = Path(__file__).resolve().parent.parent / "corpus"
    for d in sorted(own.iterdir()) if own.is_dir() else []:
        try:
            sdl = (d / "schema.graphql").read_text(encoding="utf-8")
            defs = [print_ast(x) for x in parse((d / "queries.graphql").read_text(encoding="utf-8")).definitions]
        except Exception:  # noqa: BLE001
            continue
        orders = [("written", defs), ("reversed", defs[::-1])]
        for k in range(4 if tier == "thorough" else 2):
            sh = list(defs)
            _random.Random(1000 + k).shuffle(sh)
            orders.append(("shuffle%d" % k, sh))
        for k, (label, ds) in enumerate(orders):
            out.append({"seed": 0, "idx": 950000 + len(out), "dirty": ["frag.inline.on_interface"], "cfg": CONFIGS[k % len(CONFIGS)], "props": [prop], "tier": tier,
                        "corpus": "%s/%s" % (d.name, label), "_sdl": sdl, "_queries": "\n\n".join(ds), "_features": ["corpus.%s.%s" % (d.name, label)], "_no_regen": True})
    return out


def scale_cases(prop: str, tier: str) -> List[Dict[str, Any]]:
    """Inputs far beyond the sizes of examples and tests, built programmatically (fixed cases: the property's obligations are the same at every size).
    C04: some five hundred object types chained through unions, with the operation builder switched on (every reachable type gets builder classes).
    C09: four dozen input types each referring to two dozen others - over a thousand references - under pruning, reached from one variable."""
    out: List[Dict[str, Any]] = []
    if prop == "C04":
        n = 520
        parts = ["type Query {\n  start: T0\n  leaf: Leaf\n}", "type Leaf {\n  id: ID!\n}"]
        for i in range(n):
            nxt = "T%d" % (i + 1) if i + 1 < n else "Leaf"
            parts.append("type T%d {\n  id: ID!\n  label%d: String\n  next: U%d\n}" % (i, i, i))
            parts.append("union U%d = %s | Leaf" % (i, nxt))
        out.append({"seed": 0, "idx": 970000, "dirty": [], "cfg": {"enable_custom_operations": True}, "props": [prop], "tier": tier, "corpus": "scale/type-chain-%d" % n,
                    "_sdl": "\n\n".join(parts) + "\n", "_queries": "query Walk { start { id label0 next { __typename ... on T1 { id label1 } ... on Leaf { id } } } }",
                    "_features": ["scale.type_chain_through_unions", "config.custom_ops"], "_no_regen": True})
    if prop == "C09":
        n, k = 48, 24
        parts = ["type Query {\n  find(filter: I0, kind: Kind): Boolean\n}", "enum Kind {\n  A\n  B\n}", "enum Unused {\n  X\n}", "input NeverUsed {\n  a: Int\n}"]
        for i in range(n):
            fields = ["  f%d_%d: I%d" % (i, j, (i + 1 + j) % n) for j in range(k)]
            parts.append("input I%d {\n  n%d: Int\n%s\n}" % (i, i, "\n".join(fields)))
        out.append({"seed": 0, "idx": 970001, "dirty": [], "cfg": {}, "tier": tier, "corpus": "scale/input-graph-%dx%d" % (n, k),
                    "_sdl": "\n\n".join(parts) + "\n", "_queries": "query Find($filter: I0, $kind: Kind) { find(filter: $filter, kind: $kind) }",
                    "_features": ["scale.input_graph_1000plus_references"]})
    return out


def fraggraph_cases(prop: str, tier: str, seed: int, n: int) -> List[Dict[str, Any]]:
    """Fragment usage graphs over a fixed schema (gen/fraggraph.py): which fragments are base classes somewhere, only unpacked, or reached only through another fragment
    differs from operation to operation of one document; every document also runs with its definitions reversed."""
    from ..gen.fraggraph import generate
    out: List[Dict[str, Any]] = []
    k = 0
    while len(out) < n and k < 4 * n:
        g = generate(seed * 1000003 + k)
        k += 1
        defs = list(g["fragments"]) + list(g["operations"])
        if merged_composite_keys("\n\n".join(defs)):
            continue  # an own selection meeting a fragment's selection of the same composite field: the listed merge finding, driven where it is switched on
        if len(out) % 2:
            defs = defs[::-1]
        out.append({"seed": seed, "idx": 960000 + len(out), "dirty": [], "cfg": CONFIGS[len(out) % len(CONFIGS)], "props": [prop], "tier": tier,
                    "corpus": "fraggraph/%d" % (k - 1), "_sdl": g["sdl"], "_queries": "\n\n".join(defs),
                    "_features": list(g["features"]) + (["fraggraph.reversed_definitions"] if len(out) % 2 else []), "_no_regen": True})
    return out


def run_shared(prop: str, tier: str, seed: int, n_cases: int, rule: str, floors: Dict[str, int], dirty_sets: Optional[List[List[str]]] = None,
               level: str = "exploration", extra_case_kw: Optional[Dict[str, Any]] = None, timeout_s: float = 180.0, case_hook=None) -> int:
    r = core.Run(prop, tier, seed, level=level)
    r.rule = rule
    r.assumptions = ["graphql-core (parser, validator, executor, coercion) is the model of a spec-conformant server",
                     "httpx.MockTransport is a faithful transport", "pydantic decides what an annotation accepts"]
    r.floors = floors
    if os.environ.get("VERIF_DIRTY") is not None:
        # experiments only: VERIF_DIRTY="a,b;c" runs the check with these dirty sets instead of the registered rotation (VERIF_N: number of cases)
        dirty_sets = [[x for x in part.split(",") if x] for part in os.environ["VERIF_DIRTY"].split(";")]
        n_cases = int(os.environ.get("VERIF_N", n_cases))
        r.floors = floors = {}
    cases = []
    for i in range(n_cases):
        kw = dict(extra_case_kw or {})
        kw["props"] = [prop]
        kw["tier"] = tier
        c = make_case(seed, i, dirty=(dirty_sets[i % len(dirty_sets)] if dirty_sets else []), **kw)
        if prop in ("C01", "C05") and i % 5 == 2:
            c["strict_scalars"] = True
            c["dirty"] = sorted(set(c["dirty"]) | {"schema.force_scalar"})
        if case_hook:
            case_hook(c, i)
        if i % 20 == 13 and prop in ("C01", "C02", "C04"):
            # beyond the sizes of examples: a large schema, nine operations in one document, deeper nesting (counters reach two digits, many classes per module)
            c.update(size="l", n_ops=9, max_depth=4, max_doc_chars=16000)
        cases.append(c)

    if prop in ("C01", "C02", "C04", "C05"):
        cases.extend(corpus_cases(prop, tier))
        cases.extend(scale_cases(prop, tier))
        if prop == "C02":
            cases.extend({"kind": "bytecode-history", "seed": seed, "idx": 980000 + k, "cfg": cfg_, "props": [prop], "tier": tier, "dirty": [], "corpus": "history/bytecode"}
                         for k, cfg_ in enumerate([{}, {"async_client": False}, {"opentelemetry_client": True}, {"async_client": False, "convert_to_snake_case": False}]))
        cases.extend(fraggraph_cases(prop, tier, seed, {"C01": 60, "C02": 120, "C04": 80, "C05": 40}[prop] * (8 if tier == "thorough" else 1)))

    def on_result(case, res):
        r.add(case, res)
        if case.get("corpus"):
            r.count("corpus_cases")
        if res.status != "inconclusive":
            r.mark_distinct(tuple(sorted(res.sets.get("features", []))))

    core.run_forked(cases, worker, timeout_s=timeout_s, on_result=on_result)
    return r.finish()


def replay_shared(prop: str, data) -> int:
    case = dict(data["case"])
    case["props"] = [prop]
    res = core.run_forked([case], worker)[0]
    print("status:", res.status, res.note)
    for v in res.violations:
        print("-", v["clause"], "::", v["detail"][:1500])
    if "_sdl" in data["case"]:
        print("--- schema ---\n" + data["case"]["_sdl"][:3000])
        print("--- queries ---\n" + data["case"]["_queries"][:3000])
    return 1 if res.violations else 0


# every name the documentation lets a user choose, in shapes that differ from the defaults in more than spelling: letters next to digits, capitals, names ending
# in "p"/"y" (what a careless rstrip(".py") eats), a package called like one of its own modules
NAME_SETS = [
    {"target_package_name": "my_pkg", "client_name": "MyClient", "client_file_name": "my_client", "enums_module_name": "my_enums",
     "input_types_module_name": "my_inputs", "fragments_module_name": "my_frags"},
    {"target_package_name": "shop_api_v2", "target_package_path": "src/generated", "client_name": "ShopV2", "client_file_name": "api_py", "enums_module_name": "vocabulary",
     "input_types_module_name": "enums_copy", "fragments_module_name": "shared_query"},
    {"target_package_name": "client", "client_name": "client", "client_file_name": "gateway", "fragments_module_name": "fragments2"},
    {"target_package_name": "ShopAPI", "client_name": "HTTPClient2", "client_file_name": "Gateway", "enums_module_name": "Enums", "input_types_module_name": "inputTypes"},
    {"target_package_name": "enums", "enums_module_name": "kinds", "input_types_module_name": "payloads_py", "fragments_module_name": "fragments_module"},
    {"target_package_name": "_internal__api", "target_package_path": "lib", "client_file_name": "_client", "enums_module_name": "e", "input_types_module_name": "i", "fragments_module_name": "f"},
]

CUSTOM_BASE_CLIENT = '''"""A hand-written transport: the class ariadne-codegen is told to use as base client."""
try:
    import httpx
except ImportError:  # pragma: no cover
    httpx = None

if httpx is None:  # pragma: no cover

    class TransportBaseClient:
        def __init__(self, *args, **kwargs):
            raise RuntimeError("no transport available")

else:

    class TransportBaseClient:
        def __init__(self, url="", headers=None, http_client=None):
            self.url = url
            self.headers = headers
            self.http_client = http_client or httpx.Client(headers=headers)

        def execute(self, query, operation_name=None, variables=None, **kwargs):
            return self.http_client.post(self.url, json={"query": query, "operationName": operation_name, "variables": variables}, **kwargs)

        def get_data(self, response):
            return response.json()["data"]
'''


def with_custom_operations(case: Dict[str, Any], i: int) -> None:
    """case_hook for C04: mixins on every 4th case, enable_custom_operations on every 5th."""
    with_mixins(case, i)
    if i % 5 == 2:
        case["cfg"] = dict(case["cfg"])
        case["cfg"]["enable_custom_operations"] = True
        case["dirty"] = sorted(set(case.get("dirty", [])))
    if i % 7 == 3:
        case["cfg"] = dict(case["cfg"])
        case["cfg"].update(NAME_SETS[(i // 7) % len(NAME_SETS)])
        if "target_package_path" in case["cfg"]:
            case["extra_files"] = dict(case.get("extra_files") or {}, **{case["cfg"]["target_package_path"] + "/.keep": ""})  # the directory has to exist
    if i % 11 == 6:
        # a user's own base client (README: "avoid httpx" use case): two alternative definitions of the configured class, both inside a block
        case["cfg"] = dict(case["cfg"])
        case["cfg"].update({"base_client_name": "TransportBaseClient", "base_client_file_path": "lib/transport.py"})
        case["extra_files"] = dict(case.get("extra_files") or {}, **{"lib/transport.py": CUSTOM_BASE_CLIENT})
    if i % 7 == 5:
        case["cfg"] = dict(case["cfg"])
        case["cfg"].update([{"include_all_inputs": False, "include_all_enums": False}, {"include_all_enums": False}, {"include_all_inputs": False}][(i // 7) % 3])
    if i % 9 == 4:
        case["cfg"] = dict(case["cfg"])
        case["cfg"]["include_comments"] = "stable" if (i // 9) % 2 == 0 else "timestamp"
    if i % 10 == 8 and not case.get("extra_files"):
        # the configuration lives in a file of its own, given with --config (README: "ariadne-codegen --config clients/pyproject.toml")
        case["config_rel"] = ["conf/codegen.toml", "client-a.toml", "deep/er/pyproject.toml"][(i // 10) % 3]
        case["_no_regen"] = True
    if i % 23 == 7:
        case["collide"] = "included-exceptions"
    elif i % 23 == 16:
        case["collide"] = "fragments-module"


def with_mixins(case: Dict[str, Any], i: int) -> None:
    """case_hook: every 4th case ships a mixins module and uses @mixin on fields and on fragment definitions."""
    if i % 4 != 1:
        return
    case["mixins"] = [(".mixins_mod", "MixinA"), (".mixins_mod", "MixinB")]
    case["extra_files"] = {"mixins_mod.py": "class MixinA:\n    pass\n\n\nclass MixinB:\n    pass\n"}
    case["cfg"] = dict(case["cfg"])
    case["cfg"]["files_to_include"] = ["mixins_mod.py"]
    if i % 8 == 5:
        # included files need not be Python: a PEP 561 marker, a data file next to the code
        case["extra_files"].update({"py.typed": "", "extra/schema_notes.graphql": "# kept for reference\ntype Note { text: String }\n"})
        case["cfg"]["files_to_include"] += ["py.typed", "extra/schema_notes.graphql"]
    case["dirty"] = sorted(set(case.get("dirty", [])) | {"mixin.on_fragment_def"})
