"""C14 - the custom operation builder emits valid, faithful, history-free documents.

Builder expressions are produced by reflection over the generated custom_fields / custom_queries modules guided by
the harness-built schema; the document and variables captured at the transport are validated with graphql-core,
executed on the reference server (resolvers record the arguments they receive) and compared with the expression
that built them; every expression is also rebuilt after unrelated operations in the same process.
"""
from __future__ import annotations

import inspect
import json
import random
import re
import sys
import warnings
from typing import Any, Dict, List, Optional, Set, Tuple

from .. import core
from ..core import CaseResult, Violation
from . import _clientworld as cw

PROP = "C14"
DIRTY = ["builder.list_arg", "builder.depth_ge2_args", "builder.shared_field_mutation"]


def ref_snake(name: str) -> str:
    words = re.findall(r"[A-Z]?[a-z]+|[A-Z]+(?=[A-Z][a-z]|\d|\W|_|$)|\d+", name)
    return "_".join(w.lower() for w in words)


class ExprGen:
    """Builds builder expressions + the shape and arguments they are supposed to denote."""

    def __init__(self, pkg, schema, rng: random.Random, dirty: Set[str], ser_scalars: Optional[Set[str]] = None):
        self.ser_scalars = ser_scalars or set()
        self.pkg = pkg
        self.schema = schema
        self.rng = rng
        self.dirty = dirty
        self.cf = sys.modules[pkg.__name__ + ".custom_fields"]
        self.ctf = sys.modules[pkg.__name__ + ".custom_typing_fields"]
        self.n = 0
        self.used: Set[str] = set()
        self.feats: Set[str] = set()
        self.skipped: Dict[str, int] = {}
        self.missing: List[str] = []

    def tok(self) -> int:
        self.n += 1
        return self.n

    def skip(self, why: str):
        self.skipped[why] = self.skipped.get(why, 0) + 1

    def holder_for(self, t):
        from graphql import GraphQLInterfaceType, GraphQLObjectType, GraphQLUnionType
        if isinstance(t, GraphQLObjectType):
            return getattr(self.cf, t.name + "Fields", None)
        if isinstance(t, GraphQLInterfaceType):
            return getattr(self.cf, t.name + "Interface", None)
        if isinstance(t, GraphQLUnionType):
            return getattr(self.ctf, t.name + "Union", None)
        return None

    def arg_value(self, t) -> Any:
        """A JSON-able schema-valid value for an argument type (non-null part)."""
        from graphql import GraphQLEnumType, GraphQLInputObjectType, GraphQLList, GraphQLNonNull, is_required_input_field
        if isinstance(t, GraphQLNonNull):
            return self.arg_value(t.of_type)
        if isinstance(t, GraphQLList):
            return [self.arg_value(t.of_type) for _ in range(self.rng.randrange(0, 3))]
        if isinstance(t, GraphQLEnumType):
            return self.rng.choice(list(t.values))
        if isinstance(t, GraphQLInputObjectType):
            return {k: self.arg_value(f.type) for k, f in t.fields.items() if is_required_input_field(f)}
        n = self.tok()
        if self.rng.random() < 0.15:  # given but falsy: still a value, never the same as omitted
            self.feats.add("arg.falsy")
            return {"Int": 0, "Float": 0.0, "String": "", "ID": "", "Boolean": False}.get(t.name, "")
        return {"Int": 100 + n, "Float": n + 0.5, "String": "arg#%d" % n, "ID": "id#%d" % n, "Boolean": n % 2 == 0}.get(t.name, "cs#%d" % n)

    def as_serialized(self, t, v):
        """The value with every leaf of a scalar configured with `serialize` replaced by what that function returns for it."""
        from graphql import GraphQLInputObjectType, GraphQLList, GraphQLNonNull, GraphQLScalarType
        if v is None or not self.ser_scalars:
            return v
        if isinstance(t, GraphQLNonNull):
            return self.as_serialized(t.of_type, v)
        if isinstance(t, GraphQLList):
            return [self.as_serialized(t.of_type, x) for x in v]
        if isinstance(t, GraphQLInputObjectType):
            return {k: self.as_serialized(t.fields[k].type, x) for k, x in v.items()}
        if isinstance(t, GraphQLScalarType) and t.name in self.ser_scalars:
            self.feats.add("arg.custom_scalar_serialized")
            return "S:%s" % (v,)
        return v

    def python_value(self, t, v):
        from ..values import build_python
        return build_python(self.pkg, {}, t, v, by_alias=True)

    def member(self, holder, parent_type, fname: str, depth: int, level: int):
        """-> (field object, shape) or None.  shape = {'field': graphql name, 'key': response key, 'args': {...}, 'children': [...], 'on': {type: [...]}}"""
        from graphql import GraphQLList, get_named_type, is_composite_type, is_leaf_type, is_required_argument

        fdef = parent_type.fields[fname]
        named = get_named_type(fdef.type)
        simple = is_leaf_type(named) and not fdef.args
        shape: Dict[str, Any] = {"field": fname, "key": fname, "args": {}, "children": [], "on": {}, "level": level}
        if holder is None:
            self.skip("no_builder_class_for_type")  # the property quantifies over trees of *generated* field objects
            return None
        if simple:
            obj = None
            for attr, val in vars(holder).items():
                if getattr(val, "_field_name", None) == fname and not callable(val):
                    obj = val
                    break
            if obj is None:
                # root operation classes expose argument-less scalars as classmethods
                for cand in (ref_snake(fname), fname):
                    m_ = getattr(holder, cand, None)
                    if callable(m_):
                        try:
                            o_ = m_()
                        except Exception:  # noqa: BLE001
                            continue
                        if ref_snake(fname) != fname:
                            self.feats.add("builder.camel_method_field")
                        self.feats.add("field.scalar_method")
                        return o_, shape
                self.missing.append("%s.%s (scalar attribute)" % (holder.__name__, fname))
                return None
            if "builder.shared_field_mutation" in self.dirty and self.rng.random() < 0.5:
                alias = "sal%d" % self.tok()
                obj = obj.alias(alias)
                shape["key"] = alias
                self.feats.add("builder.shared_field_mutation")
            self.feats.add("field.scalar_attribute")
            return obj, shape
        # method field
        snake = ref_snake(fname)
        renamed = snake != fname
        meth = getattr(holder, snake, None) or getattr(holder, fname, None)
        if meth is not None and not callable(meth) and hasattr(meth, "_field_name"):
            # argument-less union/interface member exposed as ONE class-level object: using it (.on / .alias) mutates shared state
            if "builder.shared_field_mutation" not in self.dirty:
                self.skip("shared_field_mutation")
                return None
            self.feats.add("builder.shared_field_mutation")
            obj = meth
            shape["shared"] = True
            sub_holder = self.holder_for(named)
            if sub_holder is None or not self.fill(obj, sub_holder, named, shape, depth - 1, level + 1):
                return None
            return obj, shape
        if meth is None or not callable(meth):
            self.missing.append("%s.%s (method)" % (holder.__name__, fname))
            return None
        if renamed:
            self.feats.add("builder.camel_method_field")
        # learn graphql arg name -> python parameter by observation
        sig = inspect.signature(meth)
        params = list(sig.parameters)
        probe = meth(**{p: "probe#%d" % i for i, p in enumerate(params)})
        inv = {"probe#%d" % i: p for i, p in enumerate(params)}
        def _raw(v_):  # a configured serialize function has already been applied to the probe marker
            return v_[2:] if isinstance(v_, str) and v_.startswith("S:") else v_
        pmap = {g: inv[_raw(d["value"])] for g, d in probe._variables.items() if isinstance(d.get("value"), str) and _raw(d["value"]) in inv}
        kwargs = {}
        for aname, a in fdef.args.items():
            required = is_required_argument(a) or str(a.type).endswith("!")  # the builder makes every non-null argument a required parameter
            is_list = "[" in str(a.type)
            if is_list and "builder.list_arg" not in self.dirty:
                if required:
                    self.skip("list_arg")
                    return None
                continue
            if level >= 2 and "builder.depth_ge2_args" not in self.dirty:
                if required:
                    self.skip("depth_ge2_args")
                    return None
                continue
            if not required and self.rng.random() < 0.4:
                if self.rng.random() < 0.5 and aname in pmap:
                    kwargs[pmap[aname]] = None  # explicit None must be omitted
                    self.feats.add("arg.none_omitted")
                continue
            if aname not in pmap:
                self.missing.append("%s.%s argument %s" % (holder.__name__, fname, aname))
                return None
            v = self.arg_value(a.type)
            try:
                kwargs[pmap[aname]] = self.python_value(a.type, v)
            except Exception:  # noqa: BLE001
                self.skip("arg_unbuildable")
                return None
            from graphql.utilities import coerce_input_value
            shape["args"][aname] = json.loads(json.dumps(coerce_input_value(self.as_serialized(a.type, v), a.type), default=str))  # what a conformant server makes of it (input defaults applied)
            if is_list:
                self.feats.add("builder.list_arg")
            if level >= 2:
                self.feats.add("builder.depth_ge2_args")
            self.feats.add("arg.supplied")
        try:
            obj = meth(**kwargs)
        except Exception as e:  # noqa: BLE001
            self.missing.append("%s.%s call failed: %s" % (holder.__name__, fname, e))
            return None
        if self.rng.random() < 0.3:
            alias = "al%d" % self.tok()
            obj = obj.alias(alias)
            shape["key"] = alias
            self.feats.add("field.alias")
        if is_composite_type(named):
            sub_holder = self.holder_for(named)
            if sub_holder is None:
                # a generated member returns this type, so its selection can only be written with the type's builder class
                self.missing.append("builder class of type %s, which %s.%s returns" % (named.name, holder.__name__, fname))
                return None
            ok = self.fill(obj, sub_holder, named, shape, depth - 1, level + 1)
            if not ok:
                return None
        self.feats.add("field.method")
        return obj, shape

    def fill(self, obj, holder, t, shape, depth: int, level: int) -> bool:
        from graphql import GraphQLUnionType, get_named_type, is_leaf_type
        chosen = []
        if not isinstance(t, GraphQLUnionType):
            names = list(t.fields)
            self.rng.shuffle(names)
            for fname in names[:4]:
                named = get_named_type(t.fields[fname].type)
                if depth <= 0 and not (is_leaf_type(named) and (not t.fields[fname].args or "builder.depth_ge2_args" in self.dirty)):
                    continue
                m = self.member(holder, t, fname, depth, level)
                if m is not None:
                    chosen.append(m)
            if chosen:
                obj.fields(*[c[0] for c in chosen])
                shape["children"] = [c[1] for c in chosen]
        if hasattr(obj, "on"):
            poss = list(self.schema.get_possible_types(t))
            self.rng.shuffle(poss)
            key_types: Dict[str, str] = {}
            for ot in poss[:3]:
                oh = self.holder_for(ot)
                if oh is None and isinstance(t, GraphQLUnionType):
                    # the members of a union a generated member returns are part of what it returns (implementers of an interface are not: they get a class
                    # only if some field returns them)
                    self.missing.append("builder class of type %s, a member of the union %s which a generated member returns" % (ot.name, t.name))
                    continue
                subs = []
                # fields that several member types share (inherited interface fields) come first: the same argument name then occurs in several fragments
                names_ = sorted(ot.fields, key=lambda f_: (not (ot.fields[f_].args and any(f_ in o2.fields for o2 in poss if o2 is not ot)), list(ot.fields).index(f_)))
                for fname in names_[:4]:
                    named = get_named_type(ot.fields[fname].type)
                    if not is_leaf_type(named):
                        continue
                    if ot.fields[fname].args and level >= 2 and "builder.depth_ge2_args" not in self.dirty:
                        continue
                    if any(c[1]["field"] == fname for c in chosen):
                        continue  # already selected on the abstract type itself: selecting it again with other arguments would be a conflicting tree
                    m = self.member(oh, ot, fname, 0, level)
                    if m is not None:
                        # the same response key in two sibling fragments must have the same type (FieldsInSetCanMerge compares types even for
                        # mutually exclusive parents); an object may refine an interface field covariantly, so this tree would be the caller's error
                        if key_types.setdefault(m[1]["key"], str(ot.fields[fname].type)) != str(ot.fields[fname].type):
                            self.skip("conflicting_types_in_sibling_fragments")
                            continue
                        subs.append(m)
                if subs:
                    obj.on(ot.name, *[s[0] for s in subs])
                    for s_ in subs:
                        s_[1]["only_for_type"] = ot.name
                        if s_[1]["args"] and any(s_[1]["field"] == x["field"] and x["args"] for other in shape["on"].values() for x in other):
                            self.feats.add("on.same_argument_in_two_fragments")
                    shape["on"][ot.name] = [s[1] for s in subs]
                    self.feats.add("field.on")
        return bool(shape["children"] or shape["on"])

    def operation(self, kind: str, n_fields: int):
        root = self.schema.query_type if kind == "query" else self.schema.mutation_type
        mod = sys.modules.get("%s.custom_%s" % (self.pkg.__name__, "queries" if kind == "query" else "mutations"))
        if root is None or mod is None:
            return None
        holder = getattr(mod, "Query" if kind == "query" else "Mutation", None)
        if holder is None:
            self.missing.append("root builder class %s in %s" % ("Query" if kind == "query" else "Mutation", mod.__name__))
            return None
        out = []
        names = list(root.fields)
        self.rng.shuffle(names)
        if kind == "query" and self.rng.random() < 0.4:
            pref = self.rng.choice(["vfSearch", "vfNodes", "vfPhoto", "vfAvatar"])
            if pref in names:
                names.remove(pref)
                names.insert(0, pref)
        for fname in names:
            if len(out) >= n_fields:
                break
            m = self.member(holder, root, fname, 2, 0)
            if m is not None:
                out.append(m)
        return out or None


def doc_shape(selset) -> Tuple[List[Any], Dict[str, Any]]:
    from graphql import FieldNode, InlineFragmentNode
    children, on = [], {}
    for s in selset.selections:
        if isinstance(s, FieldNode):
            key = s.alias.value if s.alias else s.name.value
            c, o = doc_shape(s.selection_set) if s.selection_set else ([], {})
            children.append({"field": s.name.value, "key": key, "children": c, "on": o, "argnames": sorted(a.name.value for a in s.arguments)})
        elif isinstance(s, InlineFragmentNode):
            c, o = doc_shape(s.selection_set)
            on[s.type_condition.name.value] = c
    return children, on


def expected_shape(shapes: List[Dict[str, Any]]) -> List[Any]:
    return [{"field": s["field"], "key": s["key"], "children": expected_shape(s["children"]), "on": {k: expected_shape(v) for k, v in s["on"].items()},
             "argnames": sorted(s["args"])} for s in shapes]


def leak_model(got: List[Any], shapes: List[Dict[str, Any]], shared: bool = False) -> bool:
    """The listed defect, exactly: response keys may differ anywhere; at a node built from ONE class-level field object (shape["shared"]) the sub-selections may
    additionally contain entries left behind by earlier operations, so the expected entries appear in order among them.  Everywhere else the lists are equal."""
    gi = 0
    for s in shapes:
        while True:
            if gi >= len(got):
                return False
            g = got[gi]
            gi += 1
            if g["field"] == s["field"] and g["argnames"] == sorted(s["args"]):
                sh = bool(s.get("shared"))
                ok = leak_model(g["children"], s["children"], sh) and (set(s["on"]) <= set(g["on"]) if sh else set(s["on"]) == set(g["on"])) and all(
                    leak_model(g["on"][k], v, sh) for k, v in s["on"].items())
                if ok:
                    break
            if not shared:
                return False
    return shared or gi == len(got)


def variable_type_mismatches(schema, doc):
    """[(variable, type of the argument it is bound to, declared type)] for every variable used directly as an argument value."""
    from graphql import ArgumentNode, TypeInfo, TypeInfoVisitor, VariableNode, Visitor, print_ast, visit
    ti = TypeInfo(schema)
    uses = []

    class V(Visitor):
        def enter_argument(self, node, *_):
            arg = ti.get_argument()
            if isinstance(node.value, VariableNode) and arg is not None:
                uses.append((node.value.name.value, str(arg.type)))

    visit(doc, TypeInfoVisitor(ti, V()))
    out = []
    for d in doc.definitions:
        for vd in getattr(d, "variable_definitions", None) or ():
            got = print_ast(vd.type)
            for name, want in uses:
                if name == vd.variable.name.value and want != got:
                    out.append((name, want, got))
    return out


def worker(case: Dict[str, Any]) -> CaseResult:
    from graphql import build_schema, parse, specified_rules, type_from_ast, validate, validate_schema

    from ..gen.schema import generate_schema
    from ..genpkg import RefServer, call_method, import_package, make_client, run_cli, write_case
    from ..world import World

    stats: Dict[str, Any] = {}
    violations: List[Violation] = []

    def count(k, n=1):
        stats[k] = stats.get(k, 0) + n

    dirty = set(case.get("dirty", []))
    spec, sfeats, _ = generate_schema(case["seed"] * 100003 + case["idx"], set(), size="m")
    # a fixed corner every schema gets: an interface whose argument-carrying field is inherited by three types, reachable through an interface and a union field,
    # so that the SAME argument name occurs in several .on() fragments of one top-level field
    from ..gen.schema import Arg, Field
    meta = [Field("vfMeta", "String", [Arg("key", "String!"), Arg("lang", "String")]), Field("vfId", "ID!")]
    spec.interfaces["VfNode"] = ([], list(meta))
    for tn, extra in (("VfUser", "vfName"), ("VfPost", "vfTitle"), ("VfComment", "vfBody")):
        spec.objects[tn] = (["VfNode"], list(meta) + [Field(extra, "String", [Arg("key", "String")])])
    spec.unions["VfSearch"] = ["VfUser", "VfPost", "VfComment"]
    # two unrelated types whose same-named field takes same-named arguments of different types and nullability
    spec.enums["VfSize"] = ["VF_SMALL", "VF_LARGE"]
    spec.objects["VfAvatar"] = ([], [Field("vfUrl", "String", [Arg("size", "Int!"), Arg("format", "String")]), Field("vfId", "ID!")])
    spec.objects["VfPhoto"] = ([], [Field("vfUrl", "String", [Arg("size", "VfSize!"), Arg("format", "ID!")]), Field("vfId", "ID!")])
    spec.objects[spec.roots["query"]][1].extend([Field("vfAvatar", "VfAvatar"), Field("vfPhoto", "VfPhoto", [Arg("size", "Float")])])
    # ... and whose same-named field returns the same object type with different argument lists
    spec.objects["VfAvatar"][1].append(Field("vfOwner", "VfUser", [Arg("first", "Int"), Arg("after", "String")]))
    spec.objects["VfPhoto"][1].append(Field("vfOwner", "VfUser", [Arg("first", "Int!"), Arg("after", "ID"), Arg("shuffle", "Boolean")]))
    spec.objects[spec.roots["query"]][1].extend([Field("vfSearch", "[VfSearch!]!", [Arg("text", "String")]), Field("vfNodes", "[VfNode!]!")])
    sdl = case.get("_sdl") or spec.sdl()
    schema_ref = build_schema(sdl)
    if validate_schema(schema_ref):
        return CaseResult("inconclusive", note="invalid schema from generator", stats={"gen_invalid": 1})
    feats = set(cw.case_features(case, sfeats))
    cfg_full = {k: v for k, v in case["cfg"].items() if not k.startswith("_")}
    cfg_full["enable_custom_operations"] = True
    ser_scalars: Set[str] = set()
    extra_files = None
    if case.get("scalars"):
        from graphql import GraphQLScalarType
        ser_scalars = {n for n, t in schema_ref.type_map.items() if isinstance(t, GraphQLScalarType) and n not in ("String", "Int", "Float", "Boolean", "ID")}
        if ser_scalars:
            # every custom scalar is a str with a serialize function: arguments of that type must arrive as serialize(value), and an argument left as None must still be omitted
            extra_files = {"vf_csm.py": "def ser(value):\n    return 'S:%s' % (value,)\n"}
            cfg_full["scalars"] = {n: {"type": "str", "serialize": ".vf_csm.ser"} for n in sorted(ser_scalars)}
            cfg_full["files_to_include"] = ["vf_csm.py"]
            feats.add("scalar.config.serialize_str")
    replay_case = dict(case)
    replay_case["_sdl"] = sdl
    rng = random.Random(case["seed"] * 43 + case["idx"])
    with core.Scratch() as root:
        cfg = write_case(root, sdl, None, cfg_full, extra_files=extra_files)
        if case["idx"] % 3 == 0:
            # something was generated in this interpreter before: the same inputs with nothing configured
            from ..genpkg import DECOY_KINDS, decoy_generations
            stats["decoy_generations_before"] = decoy_generations(root, sdl, None, config={"enable_custom_operations": True}, kind=DECOY_KINDS[(case["idx"] // 3) % len(DECOY_KINDS)])
        with warnings.catch_warnings():
            warnings.simplefilter("ignore")
            gen = run_cli(root, "client", cfg)
        if not gen.ok:
            return CaseResult("inconclusive", note="generation failed (%s: %s) - C04's concern" % (gen.exc_type, str(gen.exception)[:200]), stats={"generation_failed": 1})
        try:
            pkg = import_package(root, "graphql_client")
            errs = cw.import_all_modules(pkg, gen.package_dir)
        except BaseException as e:  # noqa: BLE001
            errs = [("package", "%s: %s" % (type(e).__name__, str(e)[:200]))]
        if errs:
            return CaseResult("inconclusive", note="package does not load (%r) - C04's concern" % errs[:1], stats={"import_failed": 1})
        count("generated")
        server = RefServer(schema_ref)
        from ..deps import make_tracer
        client, is_async = make_client(pkg, cfg, server, make_tracer() if (case.get("cfg") or {}).get("_tracer") else None)  # the traced code path is a different one

        def build_and_send(seed: int, kind: str, opname: str):
            eg = ExprGen(pkg, schema_ref, random.Random(seed), dirty, ser_scalars)
            fields = eg.operation(kind, 1 + seed % 3)
            if not fields:
                return None, eg
            world = World(schema_ref, seed=seed)
            server.world = world
            n0 = len(server.captured)
            status, value = call_method(client, is_async, kind, {"operation_name": opname, "__fields__": [f[0] for f in fields]})
            return (fields, world, status, value, server.captured[n0:]), eg

        # call_method passes kwargs only; the builder API takes *fields positionally -> small adapter
        meth_cache = {}

        def call(kind, fields, opname):
            import asyncio
            m = getattr(client, kind)
            try:
                if is_async:
                    return ("ok", asyncio.run(m(*fields, operation_name=opname)))
                return ("ok", m(*fields, operation_name=opname))
            except BaseException as e:  # noqa: BLE001
                return ("exc", e)

        n_expr = 24 if case.get("tier") == "thorough" else 10
        kinds = ["query"] * 3 + (["mutation"] if schema_ref.mutation_type else [])
        docs_first: Dict[int, Any] = {}
        all_expr_feats: Set[str] = set()
        for round_ in (0, 1):  # round 1 rebuilds every expression after all the others were built and sent: history-freedom
            for ei in range(n_expr):
                seed = case["seed"] * 7919 + case["idx"] * 101 + ei
                kind = kinds[ei % len(kinds)]
                eg = ExprGen(pkg, schema_ref, random.Random(seed), dirty, ser_scalars)
                fields = eg.operation(kind, 1 + ei % 3)
                for why, n in eg.skipped.items():
                    count("skipped." + why, n)
                if eg.missing and round_ == 0:
                    for m in eg.missing[:2]:
                        violations.append(Violation(PROP, "builder-member-exists", "no builder member for %s" % m, sorted(feats | eg.feats), replay_case, mech="c14:member-missing"))
                if not fields:
                    count("expressions_empty")
                    continue
                fl = sorted(feats | eg.feats)
                all_expr_feats.update(eg.feats)
                dirty_used = sorted(f for f in eg.feats if f in DIRTY)
                world = World(schema_ref, seed=seed, mode="full3")
                server.world = world
                n0 = len(server.captured)
                status, value = call(kind, [f[0] for f in fields], "Op%d" % ei)
                sent = server.captured[n0:]
                count("expressions")
                if len(sent) != 1:
                    violations.append(Violation(PROP, "document-sent", "expression %d: %d requests; outcome %s %s" % (ei, len(sent), status, value if status == "exc" else ""), fl, replay_case,
                                                mech="c14:document-sent"))  # none of the listed mechanisms keeps a document from being sent
                    continue
                body = sent[0]
                key = json.dumps({"q": body.get("query"), "v": body.get("variables")}, sort_keys=True, default=str)
                if round_ == 0:
                    docs_first[ei] = key
                else:
                    count("history_comparisons")
                    if docs_first.get(ei) is not None and docs_first[ei] != key:
                        violations.append(Violation(PROP, "history-free", "expression %d builds a different document after other operations were built:\n first: %s\n again: %s" % (
                            ei, docs_first[ei][:500], key[:500]), fl, replay_case, mech=("builder.shared_field_mutation" if "builder.shared_field_mutation" in dirty else "c14:history-free")))
                    continue
                shapes = [f[1] for f in fields]
                try:
                    doc = parse(body["query"])
                except Exception as e:  # noqa: BLE001
                    violations.append(Violation(PROP, "document-parses", "expression %d: %s" % (ei, str(e)[:200]), fl, replay_case, mech="c14:document-parses"))
                    continue
                errs = validate(schema_ref, doc, specified_rules)
                if errs:
                    msg = "; ".join(e.message for e in errs)[:500]
                    mech = "c14:valid"
                    if "builder.list_arg" in eg.feats and "used in position expecting type '[" in msg or ("builder.list_arg" in eg.feats and "of type '[" in msg):
                        mech = "builder.list_arg"
                    elif "builder.depth_ge2_args" in eg.feats and "is not defined" in msg:
                        mech = "builder.depth_ge2_args"
                    elif "builder.shared_field_mutation" in dirty and "conflict because" in msg:
                        mech = "builder.shared_field_mutation"  # an alias set on a class-level field object earlier in this process shows up here
                    violations.append(Violation(PROP, "document-valid", "expression %d: %s\n%s" % (ei, msg, body["query"][:500]), fl, replay_case, mech=mech))
                    continue
                count("documents_valid")
                op = doc.definitions[0]
                if body.get("operationName") != "Op%d" % ei or op.name.value != "Op%d" % ei:
                    violations.append(Violation(PROP, "operation-name", "expression %d: operationName %r" % (ei, body.get("operationName")), fl, replay_case, mech="c14:operation-name"))
                got_shape, _ = doc_shape(op.selection_set)
                want_shape = expected_shape(shapes)
                if got_shape != want_shape:
                    def blank(x):
                        if isinstance(x, list):
                            return [blank(y) for y in x]
                        if isinstance(x, dict):
                            return {k: ("*" if k == "key" else blank(v)) for k, v in x.items()}
                        return x
                    mech = "c14:faithful-shape"
                    if "builder.shared_field_mutation" in dirty and (blank(got_shape) == blank(want_shape) or leak_model(got_shape, shapes)):
                        mech = "builder.shared_field_mutation"  # only response keys differ (aliases leaked), or a shared class-level object still carries earlier .on()/.fields() entries
                    violations.append(Violation(PROP, "faithful-shape", "expression %d: document shape differs from the expression\n got  %s\n want %s" % (
                        ei, json.dumps(got_shape)[:500], json.dumps(want_shape)[:500]), fl, replay_case, mech=mech))
                    continue
                # variable declarations: once each, with the argument's exact type
                declared = [vd.variable.name.value for vd in op.variable_definitions]
                if len(declared) != len(set(declared)):
                    violations.append(Violation(PROP, "variables-declared-once", "expression %d: %r" % (ei, declared), fl, replay_case, mech="c14:declared-once"))
                # (validation alone lets a nullable variable into a non-null position that has a default: the statement asks for the argument's exact type)
                for vname, want_t, got_t in variable_type_mismatches(schema_ref, doc):
                    violations.append(Violation(PROP, "variable-exact-type", "expression %d: $%s is declared %s, the argument it is bound to has type %s\n%s" % (
                        ei, vname, got_t, want_t, body["query"][:400]), fl, replay_case, mech="c14:variable-exact-type"))
                count("variable_types_checked", len(declared))
                if status != "ok":
                    violations.append(Violation(PROP, "executes", "expression %d: %s: %s" % (ei, type(value).__name__, str(value)[:300]), fl, replay_case,
                                                mech="c14:executes"))
                    continue
                # resolver-received arguments == caller's values
                want_args = []

                def collect(shs, path):
                    for s in shs:
                        p = path + (s["key"],)
                        if s["args"]:
                            want_args.append((p, s.get("only_for_type"), s["args"]))
                        collect(s["children"], p)
                        for tname, sub in s["on"].items():
                            collect(sub, p)
                collect(shapes, ())
                recv = {}
                for p, f, a in world.received_args:
                    kp = tuple(x for x in p if not isinstance(x, int))
                    recv.setdefault((kp, world.parent_types.get(p)), json.loads(json.dumps(a, default=str)))
                for p, tname, args in want_args:
                    count("argument_sets_checked")
                    got = next((v for (kp, pt), v in recv.items() if kp == p and (tname is None or pt == tname)), None)
                    if got is None:
                        continue  # position not reached in this world (null parent / empty list / other runtime type)
                    sup = {k: got.get(k) for k in args}
                    if sup != json.loads(json.dumps(args)):
                        violations.append(Violation(PROP, "arguments-delivered", "expression %d at %r: resolver received %r, caller passed %r" % (ei, p, sup, args), fl, replay_case,
                                                    mech="c14:arguments-delivered"))
                    extra = {k: v for k, v in got.items() if k not in args and v is not None}
                count("faithful_documents")
                # ---- the same field OBJECTS used again in a later operation, at other top-level positions, give the document a fresh tree gives
                if "builder.shared_field_mutation" not in dirty:
                    def fresh(seed_):
                        eg2 = ExprGen(pkg, schema_ref, random.Random(seed_), dirty, ser_scalars)
                        return eg2.operation(kind, 1 + ei % 3)
                    extra_seed = seed + 500009
                    extra_used = fresh(extra_seed)
                    extra_fresh = fresh(extra_seed)
                    fresh_fields = fresh(seed)
                    if extra_used and extra_fresh and fresh_fields and len(fresh_fields) == len(fields):
                        def send(objs, name):
                            w2 = World(schema_ref, seed=seed)
                            server.world = w2
                            n1 = len(server.captured)
                            call(kind, objs, name)
                            got_ = server.captured[n1:]
                            return json.dumps({"q": got_[0].get("query"), "v": got_[0].get("variables")}, sort_keys=True, default=str) if len(got_) == 1 else "requests=%d" % len(got_)
                        if ei % 2 == 1:
                            # an operation that FAILS while it is being built (a sibling that is not a field object: a builder method the caller forgot to call)
                            # is part of the history too: the field objects converted before the failure must not carry anything over
                            n_bad = len(server.captured)
                            try:
                                call(kind, [f[0] for f in fields] + [getattr(type(fields[0][0]), "alias", len)], "Bad%d" % ei)
                            except BaseException:  # noqa: BLE001
                                pass
                            count("failed_operations_in_history")
                            if len(server.captured) != n_bad:
                                count("failed_operations_that_sent_a_request")
                        reused_doc = send([extra_used[0][0]] + [f[0] for f in reversed(fields)], "Re%d" % ei)
                        fresh_doc = send([extra_fresh[0][0]] + [f[0] for f in reversed(fresh_fields)], "Re%d" % ei)
                        count("object_reuse_comparisons")
                        if reused_doc != fresh_doc:
                            violations.append(Violation(PROP, "history-free-object-reuse", "expression %d: field objects already sent in an earlier operation give a different document when "
                                                        "used again at other positions than the same tree built fresh\n reused: %s\n fresh:  %s" % (ei, reused_doc[:600], fresh_doc[:600]),
                                                        fl, replay_case, mech="c14:history-free-object-reuse"))
    sample = None
    if case["idx"] < 2 and docs_first:
        sample = {"dirty": sorted(dirty), "document": json.loads(next(iter(docs_first.values())))}
    return CaseResult("violated" if violations else "held", [v.to_json() for v in violations], stats, {"features": sorted(feats | all_expr_feats)}, sample=sample)


def run(tier: str, seed: int) -> int:
    r = core.Run(PROP, tier, seed)
    r.rule = ("seeded schemas generated with enable_custom_operations (sync/async, snake on/off); per schema 10-24 builder expression trees (several top-level fields, "
              "sub-fields to depth 3, aliases, .on() for interface/union members, arguments incl. explicit None) produced by reflection over the generated modules; each "
              "document is validated, executed on the reference server, compared in shape and delivered arguments with its expression, and rebuilt after the other "
              "expressions were built and sent; the four listed defect mechanisms are switched on one at a time in separate cases; distinct = distinct feature-set")
    r.assumptions = ["graphql-core validate/execute as reference", "snake-casing of the reference mapping is only used to *find* builder members; a missing member is reported"]
    r.floors = {"expressions": 300, "documents_valid": 150, "faithful_documents": 150, "history_comparisons": 150, "argument_sets_checked": 50, "object_reuse_comparisons": 100}
    n = 600 if tier == "thorough" else 90
    cases = []
    for i in range(n):
        d = [] if i % 3 != 2 else [DIRTY[(i // 3) % len(DIRTY)]]
        cases.append(cw.make_case(seed, i, dirty=d, tier=tier))
        if i % 3 == 1:
            cases[-1]["scalars"] = True

    def on_result(case, res):
        r.add(case, res)
        if res.status != "inconclusive":
            r.mark_distinct(tuple(sorted(res.sets.get("features", []))))

    core.run_forked(cases, worker, timeout_s=240, on_result=on_result)
    return r.finish()


def replay(data) -> int:
    case = dict(data["case"])
    res = core.run_forked([case], worker)[0]
    print("status:", res.status, res.note)
    for v in res.violations:
        print("-", v["clause"], "[", v["mech"], "] ::", v["detail"][:1500])
    return 1 if res.violations else 0
