"""C09 - pruning unused inputs and enums never removes something needed.

Four packages per case (include_all_inputs x include_all_enums).  Observations: class names and per-class source
segments of enums.py / input_types.py, import outcome, requests sent and values returned for the same calls,
and the result of the real InputTypesGenerator._get_dependencies_of_type under an icontract postcondition.
Oracle: an independent closure computed by the harness over schema_ref + authored documents.
"""
from __future__ import annotations

import ast
import json
import random
import sys
import warnings
from typing import Any, Dict, List, Optional, Set, Tuple

from .. import core
from ..core import CaseResult, Violation
from . import _clientworld as cw

PROP = "C09"


def closures(schema, doc):
    """-> (inputs needed, enums lower bound given retained inputs fn, enums upper-extra from any fragment)"""
    from graphql import (FieldNode, FragmentDefinitionNode, FragmentSpreadNode, GraphQLEnumType, GraphQLInputObjectType, InlineFragmentNode,
                         OperationDefinitionNode, get_named_type, is_abstract_type, type_from_ast)

    frags = {d.name.value: d for d in doc.definitions if isinstance(d, FragmentDefinitionNode)}
    ops = [d for d in doc.definitions if isinstance(d, OperationDefinitionNode)]
    var_inputs: Set[str] = set()
    var_enums: Set[str] = set()
    for op in ops:
        for vd in op.variable_definitions or ():
            named = get_named_type(type_from_ast(schema, vd.type))
            if isinstance(named, GraphQLInputObjectType):
                var_inputs.add(named.name)
            elif isinstance(named, GraphQLEnumType):
                var_enums.add(named.name)

    def input_closure(start: Set[str]) -> Set[str]:
        seen: Set[str] = set()
        todo = list(start)
        while todo:
            n = todo.pop()
            if n in seen:
                continue
            seen.add(n)
            for f in schema.type_map[n].fields.values():
                named = get_named_type(f.type)
                if isinstance(named, GraphQLInputObjectType):
                    todo.append(named.name)
        return seen

    def enums_of_inputs(inputs: Set[str]) -> Set[str]:
        out = set()
        for n in inputs:
            for f in schema.type_map[n].fields.values():
                named = get_named_type(f.type)
                if isinstance(named, GraphQLEnumType):
                    out.add(named.name)
        return out

    def possible_names(t) -> Set[str]:
        if is_abstract_type(t):
            return {o.name for o in schema.get_possible_types(t)}
        return {t.name}

    def result_enums(selset, t, stack=(), poss=None) -> Set[str]:
        """enums of the fields selected below `selset`.  With `poss` (the runtime types an object at this position can have) branches whose type
        condition no object of the position can satisfy are left out: nothing can ever be returned for them, so they are not result fields."""
        out: Set[str] = set()
        for s in selset.selections:
            if isinstance(s, FieldNode):
                if s.name.value == "__typename" or not hasattr(t, "fields"):
                    continue
                named = get_named_type(t.fields[s.name.value].type)
                if isinstance(named, GraphQLEnumType):
                    out.add(named.name)
                if s.selection_set:
                    out |= result_enums(s.selection_set, named, stack, possible_names(named) if poss is not None else None)
            elif isinstance(s, InlineFragmentNode):
                tt = schema.type_map[s.type_condition.name.value] if s.type_condition else t
                sub = None
                if poss is not None:
                    sub = poss & possible_names(tt)
                    if not sub:
                        continue
                out |= result_enums(s.selection_set, tt, stack, sub)
            elif isinstance(s, FragmentSpreadNode):
                if s.name.value in stack:
                    continue
                f = frags[s.name.value]
                tt = schema.type_map[f.type_condition.name.value]
                sub = None
                if poss is not None:
                    sub = poss & possible_names(tt)
                    if not sub:
                        continue
                out |= result_enums(f.selection_set, tt, stack + (s.name.value,), sub)
        return out

    op_enums: Set[str] = set()
    op_enums_textual: Set[str] = set()
    for op in ops:
        root = {"query": schema.query_type, "mutation": schema.mutation_type, "subscription": schema.subscription_type}[op.operation.value]
        op_enums |= result_enums(op.selection_set, root, (), {root.name})
        op_enums_textual |= result_enums(op.selection_set, root)
    frag_enums: Set[str] = set(op_enums_textual)
    for f in frags.values():
        frag_enums |= result_enums(f.selection_set, schema.type_map[f.type_condition.name.value])
    return var_inputs, var_enums, input_closure, enums_of_inputs, op_enums, frag_enums


def class_segments(path) -> Dict[str, str]:
    src = path.read_text()
    tree = ast.parse(src)
    out = {}
    for node in tree.body:
        if isinstance(node, ast.ClassDef):
            out[node.name] = ast.get_source_segment(src, node)
    return out


def worker(case: Dict[str, Any]) -> CaseResult:
    from graphql import GraphQLEnumType, GraphQLInputObjectType, OperationDefinitionNode, parse

    from ..genpkg import RefServer, call_method, find_methods, import_package, make_client, patched_ws, probe_param_map, run_cli, write_case
    from ..values import ValueGen, python_args
    from ..world import World

    stats: Dict[str, Any] = {}
    violations: List[Violation] = []

    def count(k, n=1):
        stats[k] = stats.get(k, 0) + n

    built = cw.build_inputs(case)
    if built is None:
        return CaseResult("inconclusive", note="generator could not produce a valid schema/document", stats={"gen_invalid": 1})
    sdl, frs, ops, names, feats, schema_ref = built
    if case.get("no_variable_ops"):
        pass
    feats = set(cw.case_features(case, feats))
    fl = sorted(feats)
    cfg_base = {k: v for k, v in case["cfg"].items() if not k.startswith("_")}
    queries = "\n\n".join(frs + ops)
    authored = parse(queries)
    replay_case = dict(case)
    replay_case["_sdl"] = sdl
    replay_case["_queries"] = queries
    var_inputs, var_enums, input_closure, enums_of_inputs, op_enums, frag_enums = closures(schema_ref, authored)
    all_inputs = {n for n, t in schema_ref.type_map.items() if isinstance(t, GraphQLInputObjectType)}
    all_enums = {n for n, t in schema_ref.type_map.items() if isinstance(t, GraphQLEnumType) and not n.startswith("__")}
    needed_inputs = input_closure(var_inputs)
    # contract on the real closure function, evaluated in situ during generation
    contract_evals = {"n": 0, "bad": []}
    try:
        sys.path.append(str(core.VERIF / ".deps"))
        import icontract

        from ariadne_codegen.client_generators import input_types as it_mod

        def closure_matches(self, type_name, result):
            contract_evals["n"] += 1
            ok = set(result) == input_closure({type_name}) and len(set(result)) == len(result)
            if not ok:
                contract_evals["bad"].append((type_name, sorted(result), sorted(input_closure({type_name}))))
            return True

        it_mod.InputTypesGenerator._get_dependencies_of_type = icontract.ensure(closure_matches)(it_mod.InputTypesGenerator._get_dependencies_of_type)
        count("icontract_installed")
    except Exception as e:  # noqa: BLE001
        count("icontract_unavailable")
    combos = [(True, True), (False, True), (True, False), (False, False)]
    pkgs = {}
    with core.Scratch() as root:
        for inc_in, inc_en in combos:
            name = "pkg_%s_%s" % ("allin" if inc_in else "usedin", "allen" if inc_en else "useden")
            cfg_full = dict(cfg_base)
            cfg_full.update({"include_all_inputs": inc_in, "include_all_enums": inc_en, "target_package_name": name})
            if case["idx"] % 2 == 1 and not (inc_in and inc_en):
                # the target already holds an OLDER generation made with the opposite flags (everything included): what the pruned package contains must not
                # depend on what lay there before
                older = dict(cfg_full, include_all_inputs=True, include_all_enums=True)
                write_case(root, sdl, queries, older)
                with warnings.catch_warnings():
                    warnings.simplefilter("ignore")
                    if run_cli(root, "client", older).ok:
                        count("generated_over_older_unpruned_package")
            if case["idx"] % 4 == 2 and not (inc_in and inc_en):
                # the target already holds an older PRUNED generation of the same schema made for OTHER operations (the user has edited the queries since): its
                # modules are newer than the untouched schema file, and what they hold is not what these operations need
                import os as _os
                import time as _time
                write_case(root, sdl, "query VfEarlier { __typename }", cfg_full)
                with warnings.catch_warnings():
                    warnings.simplefilter("ignore")
                    if run_cli(root, "client", cfg_full).ok:
                        count("generated_over_older_pruned_package_of_other_operations")
                        for f_ in (root / name).glob("*.py"):
                            _os.utime(f_, (_time.time() + 3600, _time.time() + 3600))
            cfg = write_case(root, sdl, queries, cfg_full)
            with warnings.catch_warnings():
                warnings.simplefilter("ignore")
                gen = run_cli(root, "client", cfg)
            if not gen.ok:
                if (inc_in, inc_en) == (True, True):
                    return CaseResult("inconclusive", note="unpruned generation failed (%s) - C04's concern" % gen.exc_type, stats={"generation_failed": 1})
                violations.append(Violation(PROP, "pruned-generates", "flags inputs=%s enums=%s: generation failed: %s: %s" % (inc_in, inc_en, gen.exc_type, str(gen.exception)[:300]),
                                            fl, replay_case, mech="c09:pruned-generates"))
                continue
            try:
                pkg = import_package(root, name)
                errs = cw.import_all_modules(pkg, gen.package_dir)
            except BaseException as e:  # noqa: BLE001
                errs = [("package", "%s: %s" % (type(e).__name__, str(e)[:300]))]
            if errs:
                violations.append(Violation(PROP, "pruned-loads", "flags inputs=%s enums=%s: %r" % (inc_in, inc_en, errs[:2]), fl, replay_case, mech="c09:pruned-loads"))
                continue
            pkgs[(inc_in, inc_en)] = (pkg, cfg, gen)
            count("packages")
        if (True, True) not in pkgs:
            return CaseResult("violated" if violations else "inconclusive", [v.to_json() for v in violations], stats, {"features": fl})
        base_pkg, base_cfg, base_gen = pkgs[(True, True)]
        base_in = class_segments(base_gen.package_dir / "input_types.py")
        base_en = class_segments(base_gen.package_dir / "enums.py")
        for (inc_in, inc_en), (pkg, cfg, gen) in pkgs.items():
            seg_in = class_segments(gen.package_dir / "input_types.py")
            seg_en = class_segments(gen.package_dir / "enums.py")
            label = "inputs=%s enums=%s" % ("all" if inc_in else "used", "all" if inc_en else "used")
            want_in = all_inputs if inc_in else needed_inputs
            if set(seg_in) != want_in:
                violations.append(Violation(PROP, "input-closure", "%s: input classes emitted %r; closure of the operations' variables %r (missing %r, extra %r)" % (
                    label, sorted(seg_in), sorted(want_in), sorted(want_in - set(seg_in)), sorted(set(seg_in) - want_in)), fl, replay_case, mech="c09:input-closure"))
            count("input_sets_compared")
            if inc_en:
                lower = upper = all_enums
            else:
                retained = set(seg_in) & all_inputs
                lower = var_enums | enums_of_inputs(retained) | op_enums
                upper = lower | frag_enums
            count("enum_sets_compared")
            if not (lower <= set(seg_en) <= upper):
                violations.append(Violation(PROP, "enum-closure", "%s: enum classes emitted %r; needed %r (missing %r), allowed extra %r, unexpected %r" % (
                    label, sorted(seg_en), sorted(lower), sorted(lower - set(seg_en)), sorted(upper - lower), sorted(set(seg_en) - upper)), fl, replay_case, mech="c09:enum-closure"))
            for cname, seg in list(seg_in.items()) + list(seg_en.items()):
                ref = base_in.get(cname, base_en.get(cname))
                count("segments_compared")
                if ref is not None and seg != ref:
                    violations.append(Violation(PROP, "retained-identical", "%s: class %s differs textually from its unpruned counterpart" % (label, cname), fl, replay_case,
                                                mech="c09:retained-identical"))
        if contract_evals["bad"]:
            violations.append(Violation(PROP, "dependencies-contract", "_get_dependencies_of_type returned %r" % (contract_evals["bad"][:2],), fl, replay_case, mech="c09:dependencies-contract"))
        count("contract_evaluations", contract_evals["n"])
        # behaviour identical: same calls, same requests, same returned values
        op_nodes = {d.name.value: d for d in authored.definitions if isinstance(d, OperationDefinitionNode)}
        observations: Dict[Tuple[bool, bool], List[Any]] = {}
        for key, (pkg, cfg, gen) in pkgs.items():
            server = RefServer(schema_ref)
            client, is_async = make_client(pkg, cfg, server)
            methods = find_methods(pkg, cfg, names)
            obs = []
            for op_name in names:
                mname = methods.get(op_name)
                if mname is None:
                    obs.append((op_name, "no-method"))
                    continue
                opnode = op_nodes[op_name]
                is_sub = opnode.operation.value == "subscription"
                pmap = probe_param_map(client, is_async, mname, server, is_sub)
                for wi in range(2):
                    rng = random.Random(case["seed"] * 31 + wi)
                    vg = ValueGen(schema_ref, rng)
                    tree = vg.variables(opnode, minimal=(wi == 0))
                    try:
                        kwargs = python_args(pkg, cfg, opnode, tree, schema_ref, by_alias=True, pmap=pmap)
                    except BaseException as e:  # noqa: BLE001
                        obs.append((op_name, wi, "args-unbuildable", type(e).__name__))
                        continue
                    world = World(schema_ref, seed=wi, mode="full", rotation=wi)
                    server.world = world
                    n0 = len(server.captured)
                    if is_sub:
                        with patched_ws(client, server, [world]):
                            status, value = call_method(client, is_async, mname, kwargs)
                    else:
                        status, value = call_method(client, is_async, mname, kwargs)
                    sent = server.captured[n0:]
                    if status == "ok":
                        try:
                            if isinstance(value, list):
                                dumped = [v.model_dump(mode="json", by_alias=True) for v in value]
                            else:
                                dumped = value.model_dump(mode="json", by_alias=True)
                        except BaseException as e:  # noqa: BLE001
                            dumped = "dump-failed:" + type(e).__name__
                        obs.append((op_name, wi, json.dumps(sent, sort_keys=True, default=str), json.dumps(dumped, sort_keys=True, default=str)))
                    else:
                        obs.append((op_name, wi, json.dumps(sent, sort_keys=True, default=str), "exc:" + type(value).__name__))
                    count("calls")
            observations[key] = obs
        ref_obs = observations[(True, True)]
        for key, obs in observations.items():
            count("behaviour_comparisons")
            if obs != ref_obs:
                first = next((i for i, (a, b) in enumerate(zip(obs, ref_obs)) if a != b), None)
                violations.append(Violation(PROP, "behaves-identically", "flags inputs=%s enums=%s: observation %r differs: %r vs unpruned %r" % (
                    key[0], key[1], first, str(obs[first])[:400] if first is not None else len(obs), str(ref_obs[first])[:400] if first is not None else len(ref_obs)),
                    fl, replay_case, mech="c09:behaves-identically"))
    feats.add("ops.use_inputs" if var_inputs else "ops.no_inputs")
    feats.add("inputs.some_pruned" if needed_inputs != all_inputs else "inputs.none_pruned")
    if len(needed_inputs) > len(var_inputs):
        feats.add("inputs.transitive")
    sample = None
    if case["idx"] < 2:
        sample = {"needed_inputs": sorted(needed_inputs), "all_inputs": sorted(all_inputs), "op_enums": sorted(op_enums), "var_enums": sorted(var_enums)}
    return CaseResult("violated" if violations else "held", [v.to_json() for v in violations], stats, {"features": sorted(feats)}, sample=sample)


def run(tier: str, seed: int) -> int:
    r = core.Run(PROP, tier, seed)
    r.rule = ("seeded schemas with input/enum dependency graphs (chains, cycles through nullable fields, enums only in nested results / fragments / variable types) x operation "
              "sets; four packages per case (two flags x two values); class sets compared with an independent closure, class source segments with the unpruned package, "
              "and requests/returned values for identical calls across the four; icontract postcondition on the real _get_dependencies_of_type; distinct = feature-set")
    r.assumptions = ["graphql-core reference server", "enums used only inside fragment definitions are allowed but not required (lower/upper bound)"]
    r.floors = {"packages": 200, "input_sets_compared": 200, "enum_sets_compared": 200, "segments_compared": 500, "behaviour_comparisons": 150, "contract_evaluations": 20}
    n = 700 if tier == "thorough" else 150
    cases = [cw.make_case(seed, i, tier=tier, size=("l" if i % 2 else "m"), dirty=[[], ["schema.extend"], [], ["frag.uses_variables"], []][i % 5]) for i in range(n)]

    cases.extend(cw.scale_cases(PROP, tier))

    def on_result(case, res):
        r.add(case, res)
        if res.status != "inconclusive":
            r.mark_distinct(tuple(sorted(res.sets.get("features", []))))

    core.run_forked(cases, worker, timeout_s=240, on_result=on_result)
    return r.finish()


def replay(data) -> int:
    case = dict(data["case"])
    res = core.run_forked([case], worker)[0]
    print("status:", res.status, res.note)
    for v in res.violations:
        print("-", v["clause"], "::", v["detail"][:1500])
    return 1 if res.violations else 0
