"""C11 - requests are well-formed, uploads follow the multipart spec, the four clients agree,
concurrent calls on one client do not affect each other.

Observation point: the raw httpx.Request captured by httpx.MockTransport for each bundled base
client (loaded from the repository's dependency files).  Oracle: an independent reference of
the JSON body / GraphQL multipart request spec computed by the workload generator *in parallel
with* the Python value it builds (so the expectation never goes through the code under test).
"""
from __future__ import annotations

import asyncio
import datetime
import decimal
import enum
import io
import json
import random
import types
import sys
import threading
import time
from typing import Any, Dict, List, Optional, Tuple

import httpx
from pydantic import Field

from .. import core
from ..deps import load_deps, make_tracer

PROP = "C11"
URL = "http://server.test/graphql/"


class Color(str, enum.Enum):
    RED = "RED"
    GREEN = "GREEN"


class Num(enum.Enum):
    ONE = 1


# ------------------------------------------------------------------ workload generator


class TreeGen:
    """Builds (python value, expected JSON with uploads nulled) in parallel and records where each Upload sits."""

    def __init__(self, deps, rng: random.Random, features: Optional[set] = None):
        self.deps = deps
        self.rng = rng
        self.n = 0
        self.uploads: List[Any] = []  # distinct Upload objects
        self.upload_meta: Dict[int, Tuple[str, bytes, str]] = {}
        self.paths: Dict[int, List[str]] = {}  # id(upload) -> paths
        self.features = features if features is not None else set()
        BM = deps.base_model.BaseModel

        class Leaf(BM):
            some_int: Optional[int] = Field(alias="someInt", default=None)
            text: Optional[str] = None
            color: Optional[Color] = None
            when: Optional[datetime.datetime] = None
            file_: Optional[Any] = Field(alias="file", default=None)

        class Node(BM):
            leaf: Optional[Leaf] = None
            leaf_list: Optional[List[Optional[Leaf]]] = Field(alias="leafList", default=None)
            child_node: Optional["Node"] = Field(alias="childNode", default=None)
            files: Optional[List[Any]] = None
            id_: str = Field(alias="id")

        Node.model_rebuild()
        self.Leaf, self.Node = Leaf, Node

    def tok(self) -> int:
        self.n += 1
        return self.n

    def new_upload(self):
        n = self.tok()
        content = ("file-content-%d-%s" % (n, "x" * self.rng.randrange(0, 40))).encode()
        meta = ("f%d.txt" % n if self.rng.random() < 0.8 else "same.txt", content, self.rng.choice(["text/plain", "application/octet-stream", "image/png"]))
        up = self.deps.base_model.Upload(filename=meta[0], content=io.BytesIO(content), content_type=meta[2])
        self.uploads.append(up)
        self.upload_meta[id(up)] = meta
        self.paths[id(up)] = []
        return up

    def upload(self, path: str):
        if self.uploads and self.rng.random() < 0.35:
            up = self.rng.choice(self.uploads)
            self.features.add("upload.shared")
        else:
            up = self.new_upload()
        self.paths[id(up)].append(path)
        self.features.add("upload.depth%d" % min(path.count("."), 5))
        return up, None

    def scalar(self):
        k = self.rng.randrange(9)
        n = self.tok()
        if k == 0:
            return n, n
        if k == 1:
            return "s#%d" % n, "s#%d" % n
        if k == 2:
            return None, None
        if k == 3:
            return n + 0.5, n + 0.5
        if k == 4:
            return bool(n % 2), bool(n % 2)
        if k == 5:
            self.features.add("leaf.enum")
            c = self.rng.choice(list(Color))
            return c, c.value
        if k == 6:
            self.features.add("leaf.datetime")
            d = datetime.datetime(2020, 1, 1 + n % 28, 3, 4, 5)
            return d, d.isoformat()
        if k == 7:
            self.features.add("leaf.unicode")
            return "unié☃\"q\\%d" % n, "unié☃\"q\\%d" % n
        self.features.add("leaf.date")
        d = datetime.date(2021, 2, 1 + n % 28)
        return d, d.isoformat()

    def leaf_model(self, path: str, allow_upload: bool):
        kw, exp = {}, {}
        if self.rng.random() < 0.6:
            v = self.tok()
            kw["someInt"], exp["someInt"] = v, v
        if self.rng.random() < 0.3:
            kw["text"], exp["text"] = None, None  # explicit None is "set" -> must be sent as null
            self.features.add("model.explicit_none")
        if self.rng.random() < 0.4:
            kw["color"], exp["color"] = Color.GREEN, "GREEN"
            self.features.add("leaf.enum")
        if self.rng.random() < 0.3:
            d = datetime.datetime(2022, 3, 4, 5, 6, 7)
            kw["when"], exp["when"] = d, d.isoformat()
            self.features.add("leaf.datetime")
        if allow_upload and self.rng.random() < 0.3:
            kw["file"], exp["file"] = self.upload(path + ".file")
            self.features.add("upload.in_model")
        self.features.add("model.leaf")
        by_name = self.rng.random() < 0.3 and "someInt" in kw
        if by_name:
            kw["some_int"] = kw.pop("someInt")
            self.features.add("model.by_field_name")
        return self.Leaf(**kw), exp

    def node_model(self, path: str, depth: int, allow_upload: bool):
        n = self.tok()
        kw: Dict[str, Any] = {"id": "id#%d" % n}
        exp: Dict[str, Any] = {"id": "id#%d" % n}
        if self.rng.random() < 0.5:
            kw["leaf"], exp["leaf"] = self.leaf_model(path + ".leaf", allow_upload)
        if self.rng.random() < 0.5:
            items, eitems = [], []
            for i in range(self.rng.randrange(0, 3)):
                if self.rng.random() < 0.2:
                    items.append(None)
                    eitems.append(None)
                else:
                    m, e = self.leaf_model("%s.leafList.%d" % (path, i), allow_upload)
                    items.append(m)
                    eitems.append(e)
            kw["leafList"], exp["leafList"] = items, eitems
        if depth > 0 and self.rng.random() < 0.4:
            kw["childNode"], exp["childNode"] = self.node_model(path + ".childNode", depth - 1, allow_upload)
            self.features.add("model.nested")
        if allow_upload and self.rng.random() < 0.3:
            items, eitems = [], []
            for i in range(self.rng.randrange(1, 3)):
                u, e = self.upload("%s.files.%d" % (path, i))
                items.append(u)
                eitems.append(e)
            kw["files"], exp["files"] = items, eitems
        self.features.add("model.node")
        return self.Node(**kw), exp

    def value(self, path: str, depth: int, allow_upload: bool, in_dict: bool = False):
        r = self.rng.random()
        if depth <= 0 or r < 0.3:
            if allow_upload and self.rng.random() < 0.3:
                return self.upload(path)
            return self.scalar()
        if r < 0.5:
            items, eitems = [], []
            for i in range(self.rng.randrange(0, 4)):
                v, e = self.value("%s.%d" % (path, i), depth - 1, allow_upload, in_dict)
                items.append(v)
                eitems.append(e)
            self.features.add("tree.list")
            return items, eitems
        if r < 0.7:
            d, ed = {}, {}
            for i in range(self.rng.randrange(0, 4)):
                k = self.rng.choice(["k%d" % i, "camelKey%d" % i, "snake_key_%d" % i, "0", "with space"])
                if k in d:
                    continue
                v, e = self.value("%s.%s" % (path, k), depth - 1, allow_upload, True)
                d[k], ed[k] = v, e
            self.features.add("tree.dict")
            return d, ed
        if in_dict:
            return self.scalar()
        if r < 0.85:
            return self.leaf_model(path, allow_upload)
        return self.node_model(path, 2, allow_upload)

    def variables(self, allow_upload: bool, call_id: Optional[str] = None):
        kind = self.rng.random()
        if kind < 0.04 and call_id is None:
            self.features.add("vars.none")
            return None, {}
        if kind < 0.08 and call_id is None:
            self.features.add("vars.empty")
            return {}, {}
        d, ed = {}, {}
        if call_id is not None:
            d["callId"], ed["callId"] = call_id, call_id
        if kind > 0.955 and call_id is None:
            # beyond example sizes: a bulk call - more than a hundred input models in one list (some first items null), and a batch of a dozen or more distinct files
            n_models = self.rng.randrange(101, 140)
            items, eitems = [], []
            for i in range(n_models):
                if i in (0, 57) and self.rng.random() < 0.3:
                    items.append(None)
                    eitems.append(None)
                    continue
                m, e = self.leaf_model("variables.batch.%d" % i, False)
                items.append(m)
                eitems.append(e)
            d["batch"], ed["batch"] = items, eitems
            self.features.add("scale.list_of_100plus_models")
            if allow_upload:
                ups, eups = [], []
                for i in range(self.rng.randrange(11, 24)):
                    u, e = self.upload("variables.attachments.%d" % i)
                    ups.append(u)
                    eups.append(e)
                d["attachments"], ed["attachments"] = ups, eups
                self.features.add("scale.11plus_uploads")
        for i in range(self.rng.randrange(1, 5)):
            k = self.rng.choice(["v%d" % i, "camelVar%d" % i, "snake_var_%d" % i, "id", "query", "file"])
            if k in d:
                continue
            if self.rng.random() < 0.12:
                d[k] = self.deps.base_model.UNSET
                self.features.add("vars.unset")
                continue
            v, e = self.value("variables." + k, 3, allow_upload)
            d[k], ed[k] = v, e
        return d, ed

    def expected_files(self):
        """-> list of (sorted paths, filename, content, content_type) for every distinct Upload that is referenced."""
        out = []
        for up in self.uploads:
            paths = self.paths[id(up)]
            if paths:
                fn, content, ct = self.upload_meta[id(up)]
                out.append((sorted(paths), fn, content, ct))
        return sorted(out, key=repr)

    def rewind(self):
        for up in self.uploads:
            up.content.seek(0)


def rewind_uploads(deps, v: Any) -> None:
    from pydantic import BaseModel
    if isinstance(v, deps.base_model.Upload):
        v.content.seek(0)
    elif isinstance(v, BaseModel):
        for k in type(v).model_fields:
            rewind_uploads(deps, getattr(v, k))
    elif isinstance(v, dict):
        for x in v.values():
            rewind_uploads(deps, x)
    elif isinstance(v, list):
        for x in v:
            rewind_uploads(deps, x)


def iter_uploads(deps, v: Any):
    from pydantic import BaseModel
    if isinstance(v, deps.base_model.Upload):
        yield v
    elif isinstance(v, BaseModel):
        for k in type(v).model_fields:
            yield from iter_uploads(deps, getattr(v, k))
    elif isinstance(v, dict):
        for x in v.values():
            yield from iter_uploads(deps, x)
    elif isinstance(v, list):
        for x in v:
            yield from iter_uploads(deps, x)


def snap(deps, v: Any) -> Any:
    """Structural snapshot of a caller-owned variables tree (Uploads by identity, models by their dump) to detect in-place modification."""
    from pydantic import BaseModel

    if isinstance(v, deps.base_model.Upload):
        return ("upload", id(v))
    if isinstance(v, BaseModel):
        return ("model", type(v).__name__, snap(deps, {k: getattr(v, k) for k in type(v).model_fields}), tuple(sorted(v.model_fields_set)))
    if isinstance(v, dict):
        return ("dict", tuple((k, snap(deps, x)) for k, x in v.items()))
    if isinstance(v, list):
        return ("list", tuple(snap(deps, x) for x in v))
    return ("leaf", repr(v))


# ------------------------------------------------------------------ decoding captured requests


def decode_request(req: httpx.Request) -> Dict[str, Any]:
    body = req.content
    ctype = req.headers.get("content-type", "")
    out: Dict[str, Any] = {"method": req.method, "url": str(req.url), "ctype": ctype.split(";")[0].strip()}
    hdrs = {k.lower(): v for k, v in req.headers.items() if k.lower() not in ("content-length", "content-type")}
    out["headers"] = hdrs
    out["timeout"] = req.extensions.get("timeout")
    if out["ctype"] == "multipart/form-data":
        from requests_toolbelt.multipart.decoder import MultipartDecoder

        dec = MultipartDecoder(body, ctype)
        parts = {}
        order = []
        for p in dec.parts:
            disp = p.headers[b"Content-Disposition"].decode()
            # form-data; name="0"; filename="f1.txt"
            fields = {}
            for seg in disp.split(";")[1:]:
                k, _, v = seg.strip().partition("=")
                fields[k] = v.strip('"')
            name = fields["name"]
            order.append(name)
            if name in parts:
                parts.setdefault("__dup__", []).append(name)
            parts[name] = {"filename": fields.get("filename"), "content": p.content,
                           "ctype": p.headers.get(b"Content-Type", b"").decode() or None}
        out["parts"] = parts
        out["order"] = order
    else:
        out["raw"] = body
    return out


def header_dict(h) -> Dict[str, str]:
    """Caller headers in any form httpx accepts -> {lower-case name: value}."""
    return {k.lower(): v for k, v in httpx.Headers(h or {}).items()}


def judge_request(dec: Dict[str, Any], query: str, opname: Optional[str], exp_vars: Any, exp_files, kwargs: Dict[str, Any]):
    """-> list of (clause, detail)"""
    bad = []
    if dec["method"] != "POST":
        bad.append(("method", dec["method"]))
    want_url = URL + ("?" + "&".join("%s=%s" % kv for kv in kwargs["params"].items()) if kwargs.get("params") else "")
    if dec["url"] != want_url:
        bad.append(("url", "%r != %r" % (dec["url"], want_url)))
    caller_headers = header_dict(kwargs.get("headers"))
    for k, v in caller_headers.items():
        if k == "content-type":
            continue
        if dec["headers"].get(k) != v:
            bad.append(("caller-headers", "header %s=%r expected %r" % (k, dec["headers"].get(k), v)))
    if dec["headers"].get("x-client-default") != "d":
        bad.append(("client-headers", "client-level default header lost: %r" % (dec["headers"],)))
    if "timeout" in kwargs:
        t = dec["timeout"] or {}
        if t.get("read") != kwargs["timeout"]:
            bad.append(("kwargs-timeout", "timeout ext %r expected %r" % (t, kwargs["timeout"])))
    if not exp_files:
        want_ct = caller_headers.get("content-type", "application/json")
        if dec["ctype"] != want_ct.split(";")[0]:
            bad.append(("content-type", "%r expected %r" % (dec["ctype"], want_ct)))
        if "raw" not in dec:
            bad.append(("json-body", "request without uploads is not a plain body"))
            return bad
        try:
            body = json.loads(dec["raw"])
        except ValueError as e:
            bad.append(("json-body", "body is not JSON: %s" % e))
            return bad
        if not isinstance(body, dict) or set(body) != {"query", "operationName", "variables"}:
            bad.append(("json-keys", "body keys %r" % (sorted(body) if isinstance(body, dict) else type(body))))
            return bad
        if body["query"] != query or body["operationName"] != opname:
            bad.append(("json-query", "query/operationName altered: %r %r" % (body["query"][:80], body["operationName"])))
        if body["variables"] != exp_vars:
            bad.append(("json-variables", "variables %r expected %r" % (body["variables"], exp_vars)))
        return bad
    # multipart
    if dec["ctype"] != "multipart/form-data":
        if "content-type" in caller_headers:
            # the caller's own Content-Type replaced the multipart one (boundary lost): a listed finding of its own
            bad.append(("multipart-caller-content-type", "%r with uploads present; the caller passed Content-Type %r" % (dec["ctype"], caller_headers["content-type"])))
        else:
            bad.append(("multipart-content-type", "%r with uploads present" % dec["ctype"]))
        return bad
    parts = dec["parts"]
    if "__dup__" in parts:
        bad.append(("multipart-dup-part", repr(parts["__dup__"])))
    if "operations" not in parts or "map" not in parts:
        bad.append(("multipart-parts", "parts %r" % (sorted(parts),)))
        return bad
    if dec["order"][:2] != ["operations", "map"]:
        bad.append(("multipart-order", "spec requires operations, map, then files: %r" % (dec["order"],)))
    try:
        ops = json.loads(parts["operations"]["content"])
        fmap = json.loads(parts["map"]["content"])
    except ValueError as e:
        bad.append(("multipart-json", str(e)))
        return bad
    if not isinstance(ops, dict) or set(ops) != {"query", "operationName", "variables"}:
        bad.append(("multipart-operations-keys", repr(sorted(ops) if isinstance(ops, dict) else ops)))
        return bad
    if ops["query"] != query or ops["operationName"] != opname:
        bad.append(("multipart-query", "query/operationName altered"))
    if ops["variables"] != exp_vars:
        bad.append(("multipart-variables", "operations.variables %r expected (file positions null) %r" % (ops["variables"], exp_vars)))
    file_parts = {k: v for k, v in parts.items() if k not in ("operations", "map", "__dup__")}
    if set(fmap) != set(file_parts):
        bad.append(("multipart-map-keys", "map keys %r vs file parts %r" % (sorted(fmap), sorted(file_parts))))
        return bad
    got = sorted(((sorted(fmap[k]), file_parts[k]["filename"], file_parts[k]["content"], file_parts[k]["ctype"]) for k in fmap), key=repr)
    if got != exp_files:
        bad.append(("multipart-files", "files/map %r expected %r" % ([(g[0], g[1]) for g in got], [(g[0], g[1]) for g in exp_files])))
    return bad


# ------------------------------------------------------------------ clients


VARIANTS = ["sync", "async", "sync_otel", "async_otel", "sync_otel+tracer", "async_otel+tracer"]


def make_client(deps, variant: str, handler):
    base = variant.split("+")[0]
    cls = deps.clients[base]
    kw: Dict[str, Any] = {"url": URL}
    if base.startswith("async"):
        kw["http_client"] = httpx.AsyncClient(transport=httpx.MockTransport(handler), headers={"X-Client-Default": "d"})
    else:
        kw["http_client"] = httpx.Client(transport=httpx.MockTransport(handler), headers={"X-Client-Default": "d"})
    tracer = None
    if variant.endswith("+tracer"):
        tracer = make_tracer()
        kw["tracer"] = tracer
    return cls(**kw), tracer


def normalise(dec):
    d = dict(dec)
    d.pop("order", None)
    return repr(sorted(d.items(), key=lambda kv: kv[0]))


def kwargs_variants(rng: random.Random, multipart: bool):
    k = rng.randrange(5)
    if k == 0:
        return {}
    if k == 1:
        return {"headers": {"Authorization": "Bearer abc", "X-Extra": "1"}}
    if k == 2:
        return {"timeout": 7.5}
    if k == 3:
        return {"headers": {"X-Client-Default": "d", "X-Req": "r"}, "params": {"p": "1"}}
    if multipart:
        if rng.random() < 0.3:
            return {"headers": {"Content-Type": "application/json", "X-Extra": "2"}}  # a caller who sets the JSON content type on every call
        return {"headers": {"X-Only": "o"}}
    return {"headers": {"Content-Type": "application/graphql+json", "X-Extra": "2"}}


async def one_case(r: core.Run, deps, rng_seed: int, idx: int):
    rng = random.Random(rng_seed * 1000003 + idx)
    feats: set = set()
    allow_upload = rng.random() < 0.6
    query = rng.choice(["query Q($a: Int) { f(a: $a) }", "mutation  M {\n  up(file: $file)\n}\n", "{ x }", "query U { u(s: \"☃ é \\\" \") }"])
    opname = rng.choice(["Q", "M", None, "U"])
    decs = {}
    outcomes = {}
    exp_vars = exp_files = None
    kwargs = None
    for variant in VARIANTS:
        tg = TreeGen(deps, random.Random(rng_seed * 7919 + idx + 104729), feats)
        variables, exp_vars = tg.variables(allow_upload)
        exp_files = tg.expected_files()
        if kwargs is None:
            kwargs = kwargs_variants(rng, bool(exp_files))
            if "headers" in kwargs:
                # every form httpx documents for headers: a dict, a sequence of (name, value) pairs, an httpx.Headers object, a read-only Mapping
                form = idx % 5
                h = kwargs["headers"]
                kwargs["headers"] = [h, list(h.items()), httpx.Headers(h), types.MappingProxyType(dict(h)), {k_.lower(): v_ for k_, v_ in h.items()}][form]
                feats.add("kwargs.headers.form." + ["dict", "pairs", "httpx.Headers", "mapping-proxy", "lower-case-names"][form])
        captured: List[httpx.Request] = []

        def handler(request: httpx.Request):
            request.read()
            captured.append(request)
            return httpx.Response(200, json={"data": {"ok": True}})

        client, tracer = make_client(deps, variant, handler)
        before_vars = snap(deps, variables)
        # the surrounding application's logging configuration is not an input of the request: every third case runs with DEBUG enabled on every logger
        import logging
        debug_logging = idx % 3 == 1
        root_logger = logging.getLogger()
        saved_level, saved_disable = root_logger.level, logging.root.manager.disable
        if debug_logging:
            logging.disable(logging.NOTSET)
            root_logger.setLevel(logging.DEBUG)
            if not root_logger.handlers:
                root_logger.addHandler(logging.NullHandler())
            for lg in list(logging.root.manager.loggerDict.values()):
                if isinstance(lg, logging.Logger) and lg.name.split(".")[0] not in ("asyncio",):
                    lg.disabled = False
            feats.add("env.debug_logging")
        try:
            if variant.startswith("async"):
                resp = await client.execute(query, opname, variables, **kwargs)
                await client.http_client.aclose()
            else:
                resp = client.execute(query, opname, variables, **kwargs)
                client.http_client.close()
            outcomes[variant] = ("ok", resp.status_code, resp.json())
        except BaseException as e:  # noqa: BLE001
            outcomes[variant] = ("exc", type(e).__name__, str(e)[:200])
        finally:
            root_logger.setLevel(saved_level)
            logging.disable(saved_disable)
        r.evaluations += 1
        r.count("client." + variant)
        case = {"kind": "single", "seed": rng_seed, "idx": idx, "variant": variant}
        if outcomes[variant][0] != "ok":
            r.add_violation(core.Violation(PROP, "execute-raises", "%s: %r; variables=%r" % (variant, outcomes[variant], variables), sorted(feats), case,
                                           mech="c11:execute-raises"))
            continue
        if len(captured) != 1:
            r.add_violation(core.Violation(PROP, "one-request", "%s sent %d requests" % (variant, len(captured)), sorted(feats), case, mech="c11:one-request"))
            continue
        dec = decode_request(captured[0])
        decs[variant] = dec
        probs = judge_request(dec, query, opname, exp_vars, exp_files, kwargs)
        if snap(deps, variables) != before_vars:
            probs.append(("caller-variables-untouched", "execute() modified the caller's variables in place"))
        if tracer is not None and tracer.open_spans():
            probs.append(("spans-closed", repr(tracer.open_spans())))
        if not probs:
            r.held += 1
        for clause, detail in probs:
            r.add_violation(core.Violation(PROP, clause, "%s: %s; kwargs=%r" % (variant, detail, kwargs), sorted(feats), case, mech=("upload-call-with-caller-content-type" if clause == "multipart-caller-content-type" else "c11:" + clause)))
        r.count("multipart" if exp_files else "json")
        if exp_files:
            r.count("uploads_distinct", len(exp_files))
            r.count("upload_positions", sum(len(f[0]) for f in exp_files))
    undecodable_upload = bool(exp_files) and "content-type" in header_dict(kwargs.get("headers"))
    # (under the listed finding the body keeps each client's random boundary and cannot be decoded: nothing to compare across clients)
    if not undecodable_upload and (len({normalise(d) for d in decs.values()}) > 1 or len({repr(o) for o in outcomes.values()}) > 1):
        r.add_violation(core.Violation(PROP, "clients-agree", "requests/outcomes differ across clients: %r" % ({k: normalise(v)[:300] for k, v in decs.items()},),
                                       sorted(feats), {"kind": "single", "seed": rng_seed, "idx": idx}, mech="c11:clients-agree"))
    for f in feats:
        r.sets.setdefault("features", set()).add(f)
    r.mark_distinct(("single", tuple(sorted(feats)), bool(exp_files), tuple(sorted(kwargs or {}))))
    if idx < 3:
        r.samples.append({"query": query, "operationName": opname, "expected_variables": exp_vars,
                          "expected_files": [(f[0], f[1], f[3]) for f in exp_files], "kwargs": kwargs})


# ------------------------------------------------------------------ call sequences on one client with caller-owned kwargs


async def sequence_case(r: core.Run, deps, seed: int, variant: str):
    """A multi-step history: JSON and upload calls alternate on ONE client and the caller re-uses the very same kwargs / headers objects.
    Every request must be what the same call sends in isolation, and the caller's objects must come back unchanged."""
    import copy

    rng = random.Random(seed)
    captured: List[httpx.Request] = []

    def handler(request: httpx.Request):
        request.read()
        captured.append(request)
        return httpx.Response(200, json={"data": {"ok": True}})

    client, tracer = make_client(deps, variant, handler)
    shared_headers = {"Authorization": "Bearer shared", "X-Seq": "s"}
    if seed % 3 == 1:
        shared_headers["Content-Type"] = "application/json"  # the shared dict also names the content type (JSON calls must keep sending it, before and after an upload)
    shared_kwargs = {"headers": shared_headers, "timeout": 9.0}
    before = copy.deepcopy(shared_kwargs)
    steps = []
    for i in range(6):
        allow_upload = (i % 2 == 1) if seed % 2 == 0 else (i % 2 == 0)
        tg = TreeGen(deps, random.Random(seed * 100 + i))
        variables, exp_vars = tg.variables(allow_upload, call_id="seq-%d" % i)
        if allow_upload and not tg.expected_files():
            up, _ = tg.upload("variables.forcedFile")
            variables["forcedFile"] = up
            exp_vars["forcedFile"] = None
        steps.append((variables, exp_vars, tg.expected_files()))
    case = {"kind": "sequence", "variant": variant, "seed": seed}
    steps = [st for st in steps for _ in (0, 1)]  # every call is retried once with the very same variables object
    for i, (variables, exp_vars, exp_files) in enumerate(steps):
        n0 = len(captured)
        # the first call of a pair starts from a caller who has already sniffed a few bytes of the stream, the retry from wherever the first call left
        # the stream: in both cases all four clients send the whole file (the transport rewinds seekable files), so none of them may differ
        if i % 2 == 0:
            rewind_uploads(deps, variables)
            if (seed + i) % 3 == 0:
                for up_ in iter_uploads(deps, variables):
                    up_.content.read(3)
                r.count("sequence_calls_with_sniffed_stream")
        else:
            r.count("sequence_retries_without_rewind")
        try:
            if variant.startswith("async"):
                await client.execute("query Q { f }", "Q", variables, **shared_kwargs)
            else:
                client.execute("query Q { f }", "Q", variables, **shared_kwargs)
        except BaseException as e:  # noqa: BLE001
            r.add_violation(core.Violation(PROP, "execute-raises", "%s step %d of a call sequence: %s: %s" % (variant, i, type(e).__name__, str(e)[:200]), ["history.sequence"], case,
                                           mech="c11:execute-raises"))
            continue
        r.evaluations += 1
        r.count("sequence_calls")
        if len(captured) != n0 + 1:
            r.add_violation(core.Violation(PROP, "one-request", "%s step %d sent %d requests" % (variant, i, len(captured) - n0), ["history.sequence"], case, mech="c11:one-request"))
            continue
        probs = judge_request(decode_request(captured[-1]), "query Q { f }", "Q", exp_vars, exp_files, {"headers": before["headers"], "timeout": 9.0})
        if not probs:
            r.held += 1
        for clause, detail in probs:
            r.add_violation(core.Violation(PROP, clause, "%s step %d (%s after %s) of a call sequence sharing one kwargs dict: %s" % (
                variant, i, "multipart" if exp_files else "json", ("multipart" if steps[i - 1][2] else "json") if i else "nothing", detail), ["history.sequence"], case,
                mech=("upload-call-with-caller-content-type" if clause == "multipart-caller-content-type" else "c11:sequence:" + clause)))
    if shared_kwargs != before:
        r.add_violation(core.Violation(PROP, "caller-kwargs-untouched", "%s: the caller's kwargs changed from %r to %r" % (variant, before, shared_kwargs), ["history.sequence"], case,
                                       mech="c11:caller-kwargs-mutated"))
    if variant.startswith("async"):
        await client.http_client.aclose()
    else:
        client.http_client.close()
    r.mark_distinct(("sequence", variant, seed % 2))


# ------------------------------------------------------------------ schedules


def code_objects(cls):
    seen = []

    def walk(co):
        seen.append(co)
        for c in co.co_consts:
            if hasattr(c, "co_code"):
                walk(c)

    for name, obj in vars(cls).items():
        f = getattr(obj, "__func__", obj)
        if hasattr(f, "__code__"):
            walk(f.__code__)
    return seen


class YieldInjector:
    """sys.monitoring LINE events inside the base-client code: seeded sleep(0) so the GIL is handed over between statements."""

    TOOL = 3

    def __init__(self, classes, rng: random.Random, prob: float):
        self.codes = [co for c in classes for co in code_objects(c)]
        self.rng = rng
        self.prob = prob
        self.hits = 0
        self.lock = threading.Lock()

    def __enter__(self):
        mon = sys.monitoring
        try:
            mon.use_tool_id(self.TOOL, "vf-yield")
        except ValueError:
            mon.free_tool_id(self.TOOL)
            mon.use_tool_id(self.TOOL, "vf-yield")

        def on_line(code, line):
            with self.lock:
                self.hits += 1
                doit = self.rng.random() < self.prob
            if doit:
                time.sleep(0)

        mon.register_callback(self.TOOL, mon.events.LINE, on_line)
        for co in self.codes:
            mon.set_local_events(self.TOOL, co, mon.events.LINE)
        return self

    def __exit__(self, *exc):
        mon = sys.monitoring
        for co in self.codes:
            mon.set_local_events(self.TOOL, co, 0)
        mon.register_callback(self.TOOL, mon.events.LINE, None)
        mon.free_tool_id(self.TOOL)


def isolated_request(deps, variant, seed, i, allow_upload):
    """What call i sends when it is the only call on a fresh client."""
    captured = []

    def handler(request):
        request.read()
        captured.append(request)
        return httpx.Response(200, json={"data": {}})

    base = variant.split("+")[0]
    tg = TreeGen(deps, random.Random(seed * 31 + i))
    variables, exp_vars = tg.variables(allow_upload, call_id="call-%d" % i)
    client, _ = make_client(deps, base.replace("async", "sync"), handler)
    client.execute("query Q { f }", "Q", variables, headers={"X-Call": str(i)})
    client.http_client.close()
    return normalise(decode_request(captured[0])), exp_vars, tg.expected_files()


def stress_sync(r: core.Run, deps, variant: str, seed: int, n_calls: int, n_threads: int, inject: bool):
    rng = random.Random(seed)
    events: List[Tuple[str, int]] = []
    ev_lock = threading.Lock()
    captured: Dict[str, httpx.Request] = {}

    def handler(request: httpx.Request):
        request.read()
        dec = decode_request(request)
        if "raw" in dec:
            cid = json.loads(dec["raw"])["variables"].get("callId")
        else:
            cid = json.loads(dec["parts"]["operations"]["content"])["variables"].get("callId")
        with ev_lock:
            events.append(("capture", cid))
            captured.setdefault(cid, []).append(request) if False else captured.__setitem__(cid, request)
        time.sleep(0)
        return httpx.Response(200, json={"data": {"echo": cid, "hdr": request.headers.get("x-call")}})

    client, tracer = make_client(deps, variant, handler)
    allow_upload = True
    inputs = []
    for i in range(n_calls):
        tg = TreeGen(deps, random.Random(seed * 31 + i))
        variables, exp_vars = tg.variables(allow_upload, call_id="call-%d" % i)
        inputs.append((variables, exp_vars, tg.expected_files()))
    results: Dict[int, Any] = {}

    def worker(ids):
        for i in ids:
            with ev_lock:
                events.append(("begin", "call-%d" % i))
            try:
                resp = client.execute("query Q { f }", "Q", inputs[i][0], headers={"X-Call": str(i)})
                results[i] = client.get_data(resp)
            except BaseException as e:  # noqa: BLE001
                results[i] = e
            with ev_lock:
                events.append(("return", "call-%d" % i))

    old = sys.getswitchinterval()
    sys.setswitchinterval(1e-6)
    threads = [threading.Thread(target=worker, args=(list(range(t, n_calls, n_threads)),)) for t in range(n_threads)]
    cm = YieldInjector([deps.clients[variant.split("+")[0]]], rng, 0.25) if inject else None
    try:
        if cm:
            cm.__enter__()
        for t in threads:
            t.start()
        for t in threads:
            t.join(120)
    finally:
        if cm:
            cm.__exit__(None, None, None)
            r.count("yield_injection_line_events", cm.hits)
        sys.setswitchinterval(old)
    client.http_client.close()
    if any(t.is_alive() for t in threads):
        r.inconclusive += 1
        r.notes.append("thread stress watchdog")
        return
    judge_stress(r, deps, variant, seed, n_calls, inputs, results, captured, events, "threads" + ("+inject" if inject else ""))
    if tracer is not None and tracer.open_spans():
        r.add_violation(core.Violation(PROP, "spans-closed", repr(tracer.open_spans())[:300], [], {"kind": "stress", "variant": variant, "seed": seed}, mech="c11:spans-closed"))


async def stress_async(r: core.Run, deps, variant: str, seed: int, n_calls: int):
    rng = random.Random(seed)
    events: List[Tuple[str, Any]] = []
    captured: Dict[str, httpx.Request] = {}

    async def handler(request: httpx.Request):
        await request.aread()
        dec = decode_request(request)
        if "raw" in dec:
            cid = json.loads(dec["raw"])["variables"].get("callId")
        else:
            cid = json.loads(dec["parts"]["operations"]["content"])["variables"].get("callId")
        events.append(("capture", cid))
        captured[cid] = request
        for _ in range(rng.randrange(0, 6)):
            await asyncio.sleep(0)
        return httpx.Response(200, json={"data": {"echo": cid, "hdr": request.headers.get("x-call")}})

    client, tracer = make_client(deps, variant, handler)
    inputs = []
    for i in range(n_calls):
        tg = TreeGen(deps, random.Random(seed * 31 + i))
        variables, exp_vars = tg.variables(True, call_id="call-%d" % i)
        inputs.append((variables, exp_vars, tg.expected_files()))
    results: Dict[int, Any] = {}

    async def call(i):
        for _ in range(rng.randrange(0, 4)):
            await asyncio.sleep(0)
        events.append(("begin", "call-%d" % i))
        try:
            resp = await client.execute("query Q { f }", "Q", inputs[i][0], headers={"X-Call": str(i)})
            results[i] = client.get_data(resp)
        except BaseException as e:  # noqa: BLE001
            results[i] = e
        events.append(("return", "call-%d" % i))

    await asyncio.wait_for(asyncio.gather(*[call(i) for i in range(n_calls)]), 120)
    await client.http_client.aclose()
    judge_stress(r, deps, variant, seed, n_calls, inputs, results, captured, events, "asyncio")
    if tracer is not None and tracer.open_spans():
        r.add_violation(core.Violation(PROP, "spans-closed", repr(tracer.open_spans())[:300], [], {"kind": "stress", "variant": variant, "seed": seed}, mech="c11:spans-closed"))


def judge_stress(r, deps, variant, seed, n_calls, inputs, results, captured, events, mode):
    case = {"kind": "stress", "variant": variant, "seed": seed, "n_calls": n_calls, "mode": mode}
    ok = True
    for i in range(n_calls):
        cid = "call-%d" % i
        r.evaluations += 1
        r.count("stress_calls." + mode)
        res = results.get(i)
        if isinstance(res, BaseException) or res is None:
            r.add_violation(core.Violation(PROP, "concurrent-call-failed", "%s call %d: %r" % (variant, i, res), ["schedule." + mode], case, mech="c11:concurrent-call-failed"))
            ok = False
            continue
        if res != {"echo": cid, "hdr": str(i)}:
            r.add_violation(core.Violation(PROP, "cross-talk-response", "%s call %d got %r" % (variant, i, res), ["schedule." + mode], case, mech="c11:cross-talk"))
            ok = False
            continue
        req = captured.get(cid)
        if req is None:
            r.add_violation(core.Violation(PROP, "cross-talk-request", "no request captured for %s" % cid, ["schedule." + mode], case, mech="c11:cross-talk"))
            ok = False
            continue
        probs = judge_request(decode_request(req), "query Q { f }", "Q", inputs[i][1], inputs[i][2], {"headers": {"X-Call": str(i)}})
        iso, _, _ = isolated_request(deps, variant, seed, i, True)
        if normalise(decode_request(req)) != iso:
            probs.append(("cross-talk-request", "request of call %d differs from the request the same call sends in isolation" % i))
        for clause, detail in probs:
            r.add_violation(core.Violation(PROP, clause, "%s %s: %s" % (variant, mode, detail), ["schedule." + mode], case, mech="c11:" + ("cross-talk" if "cross" in clause else clause)))
            ok = False
        if not probs:
            r.held += 1
    # interleaving signature: the order of begin/capture/return events, with call ids replaced by first-appearance rank
    rank: Dict[str, int] = {}
    sig = []
    overlap = 0
    open_calls = set()
    for kind, cid in events:
        rank.setdefault(cid, len(rank))
        sig.append("%s%d" % (kind[0], rank[cid]))
        if kind == "begin":
            if open_calls:
                overlap += 1
            open_calls.add(cid)
        elif kind == "return":
            open_calls.discard(cid)
    r.sets.setdefault("interleavings." + mode, set()).add(" ".join(sig))
    r.count("overlapping_begins." + mode, overlap)
    r.mark_distinct(("stress", mode, variant, " ".join(sig)))
    return ok


async def amain(r: core.Run, tier: str, seed: int):
    deps = load_deps()
    thorough = tier == "thorough"
    n_single = 4000 if thorough else 500
    for idx in range(n_single):
        await one_case(r, deps, seed, idx)
    for k in range(40 if thorough else 6):
        for variant in VARIANTS:
            await sequence_case(r, deps, seed * 50 + k, variant)
    rounds = 40 if thorough else 6
    for k in range(rounds):
        for variant in ("async", "async_otel", "async_otel+tracer"):
            await stress_async(r, deps, variant, seed * 1000 + k, 32)
    return deps


def run(tier: str, seed: int) -> int:
    r = core.Run(PROP, tier, seed, level="exploration")
    r.max_samples = 4
    r.rule = ("seeded variable trees (dicts, lists, pydantic models built by alias or field name, UNSET, None, enum/datetime/date leaves, Upload at any depth, "
              "shared Uploads) x kwargs variants, each sent through all six client variants; then 32 concurrent calls on ONE client under asyncio.gather "
              "with seeded awaits, and under 8 threads with a 1us switch interval with and without sys.monitoring LINE yield injection; "
              "distinct = distinct feature-set x kwargs class for single calls, distinct begin/capture/return order signature for schedules")
    r.assumptions = ["httpx.MockTransport shows the request exactly as a server would receive it", "requests_toolbelt decodes multipart bodies correctly",
                     "identity is what makes two Upload objects distinct"]
    deps = asyncio.run(amain(r, tier, seed))
    thorough = tier == "thorough"
    rounds = 30 if thorough else 5
    for k in range(rounds):
        for variant in ("sync", "sync_otel", "sync_otel+tracer"):
            stress_sync(r, deps, variant, seed * 1000 + k, 32, 8, inject=False)
            stress_sync(r, deps, variant, seed * 1000 + 500 + k, 32, 8, inject=True)
    r.floors = {"sequence_calls": 100, "multipart": 100, "json": 100, "interleavings.asyncio": 3, "interleavings.threads": 3, "interleavings.threads+inject": 3,
                "overlapping_begins.threads+inject": 10, "overlapping_begins.asyncio": 10}
    return r.finish()


def replay(data) -> int:
    case = data["case"]
    deps = load_deps()
    r = core.Run(PROP, "quick", 0)

    if case["kind"] == "single":
        asyncio.run(one_case(r, deps, case["seed"], case["idx"]))
    elif case["kind"] == "sequence":
        asyncio.run(sequence_case(r, deps, case["seed"], case["variant"]))
    elif case["mode"] == "asyncio":
        asyncio.run(stress_async(r, deps, case["variant"], case["seed"], case["n_calls"]))
    else:
        stress_sync(r, deps, case["variant"], case["seed"], case["n_calls"], 8, inject="inject" in case["mode"])
    for v in r.violations:
        print(v["clause"], "::", v["detail"][:1000])
    print("replay: %d violation(s)" % len(r.violations))
    return 1 if r.violations else 0
