"""C05 - result models are as strict as the schema (see _clientworld.py / oracles.py)."""
from . import _clientworld as cw

PROP = "C05"
RULE = ("conformant responses of C01's worlds are corrupted at one point (null at non-null unconditional position, unconditional key removed, value replaced by "
        "another JSON kind, __typename replaced by an impossible type) and fed to the real result model, which must raise ValidationError; the evaluated "
        "annotation of every result field reached is compared with an independent GraphQL-type -> annotation image; distinct = distinct generator feature-set")


def run(tier, seed):
    n = 1200 if tier == "thorough" else 165
    return cw.run_shared(PROP, tier, seed, n, RULE, floors={"c05.corruptions": 2000, "c05.annotations_checked": 1000, "c05.kind.null-at-nonnull": 100,
                                                             "c05.kind.key-removed": 100, "c05.kind.typename-not-possible": 50}, dirty_sets=[[], ["dir.custom", "frag.uses_variables"], ["frag.inline.on_interface"], ["shape.iface_hierarchy"], ["schema.extend"], ["sel.field_merge"], [], ["frag.inline.on_interface"], ["frag.inline.on_same_abstract"], ["names.pydantic_attr"], []])


def replay(data):
    return cw.replay_shared(PROP, data)
