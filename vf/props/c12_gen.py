"""C12, generated-method part: a generated method fed each (status, body) class returns the validated model of exactly
the data member, or propagates the one documented exception."""
from __future__ import annotations

import json
import warnings
from typing import Any, Dict, List

import httpx

from .. import core
from ..core import CaseResult, Violation

PROP = "C12"
CONFORMANT = {"user": {"id": "u1", "name": "N", "color": "RED", "friends": [{"id": "f1"}]}}
CONFIGS = [{}, {"async_client": False}, {"opentelemetry_client": True}, {"async_client": False, "opentelemetry_client": True}]


def worker(case: Dict[str, Any]) -> CaseResult:
    from pydantic import ValidationError

    from . import c12, c17
    from ..genpkg import RefServer, call_method, find_methods, import_package, make_client, run_cli, write_case
    from graphql import build_schema

    violations: List[Violation] = []
    stats: Dict[str, Any] = {}
    cfg_full = dict(case["cfg"])
    with core.Scratch() as root:
        cfg = write_case(root, c17.SCHEMA, c17.QUERIES, cfg_full)
        # the target already holds copies of the bundled files left by another release (newer than the installed generator's own files, with other content):
        # the package generated now must classify responses the way THIS release does
        import os as _os
        import time as _time
        stale_dir = root / "graphql_client"
        stale_dir.mkdir()
        for fn in ("base_client.py", "async_base_client.py", "base_client_open_telemetry.py", "async_base_client_open_telemetry.py", "exceptions.py", "base_model.py", "__init__.py"):
            (stale_dir / fn).write_text("raise RuntimeError('copy left by an older release: %s')\n" % fn)
            _os.utime(stale_dir / fn, (_time.time() + 3600, _time.time() + 3600))
        with warnings.catch_warnings():
            warnings.simplefilter("ignore")
            g = run_cli(root, "client", cfg)
        if not g.ok:
            return CaseResult("inconclusive", note="generation failed: %s %s" % (g.exc_type, g.exception))
        try:
            pkg = import_package(root, "graphql_client")
        except BaseException as e:  # noqa: BLE001
            return CaseResult("violated", [Violation(PROP, "generated-method-outcome", "config=%r: the package generated over copies of the bundled files left by another release does not "
                                                     "load: %s: %s" % (case["cfg"], type(e).__name__, str(e)[:300]), ["generated_method"], {"kind": "generated", "cfg": case["cfg"], "statuses": case["statuses"]},
                                                     mech="generated-method:stale-bundled-copy").to_json()], stats, {"features": ["generated_method"]})
        server = RefServer(build_schema(c17.SCHEMA))
        client, is_async = make_client(pkg, cfg, server)
        mname = find_methods(pkg, cfg, ["GetUser"])["GetUser"]
        model = pkg.GetUser
        import random
        bodies = c12.body_classes(random.Random(0), False)
        bodies += [("data-conformant/0", json.dumps({"data": CONFORMANT}).encode()), ("data-conformant+ext/0", json.dumps({"data": CONFORMANT, "extensions": {"a": 1}}).encode()),
                   ("errors+conformant-data/0", json.dumps({"data": CONFORMANT, "errors": [{"message": "partial"}]}).encode()),
                   ("data-user-null/0", json.dumps({"data": {"user": None}}).encode())]
        exmod = __import__("graphql_client.exceptions", fromlist=["x"])
        for status in case["statuses"]:
            for label, raw in bodies:
                kind, payload = c12.expected(status, raw)
                server.override_response = lambda body, status=status, raw=raw: httpx.Response(status, content=raw)
                st, val = call_method(client, is_async, mname, {"id": "u1"})
                stats["method_calls"] = stats.get("method_calls", 0) + 1
                bad = None
                if kind == "http":
                    if not (st == "exc" and type(val) is exmod.GraphQLClientHttpError and val.status_code == status):
                        bad = "expected GraphQLClientHttpError(%d), got %s %r" % (status, st, val)
                elif kind == "invalid":
                    if not (st == "exc" and type(val) is exmod.GraphQLClientInvalidResponseError):
                        bad = "expected GraphQLClientInvalidResponseError, got %s %r" % (st, val)
                elif kind == "multi":
                    if not (st == "exc" and type(val) is exmod.GraphQLClientGraphQLMultiError and len(val.errors) == len(payload["errors"]) and val.data == payload.get("data")):
                        bad = "expected GraphQLClientGraphQLMultiError, got %s %r" % (st, val)
                else:
                    try:
                        want = ("ok", model.model_validate(payload))
                    except ValidationError:
                        want = ("validation-error", None)
                    if want[0] == "ok":
                        stats["models_returned"] = stats.get("models_returned", 0) + 1
                        if not (st == "ok" and type(val) is model and val == want[1] and val.model_dump(by_alias=True) == want[1].model_dump(by_alias=True)):
                            bad = "expected the validated model of the data member, got %s %r" % (st, val)
                    else:
                        if not (st == "exc" and isinstance(val, ValidationError)):
                            bad = "data %r is not a conformant object: expected pydantic ValidationError, got %s %r" % (payload, st, val)
                if bad:
                    violations.append(Violation(PROP, "generated-method-outcome", "config=%r status=%d body=%r: %s" % (case["cfg"], status, raw[:200], bad),
                                                ["generated_method", label.split("/")[0]], {"kind": "generated", "cfg": case["cfg"], "statuses": [status]}, mech="generated-method:" + kind))
    return CaseResult("violated" if violations else "held", [v.to_json() for v in violations], stats, {"features": ["generated_method"]})


def run_part(r: core.Run, tier: str, seed: int) -> None:
    statuses = [200, 201, 299, 301, 404, 500] if tier != "thorough" else [200, 201, 204, 299, 300, 301, 400, 404, 422, 500, 503]
    cases = [{"cfg": c, "statuses": statuses} for c in CONFIGS]
    for case, res in zip(cases, core.run_forked(cases, worker, timeout_s=240)):
        r.add(case, res)
        r.mark_distinct(("generated", json.dumps(case["cfg"], sort_keys=True)))
    r.floors.update({"method_calls": 500, "models_returned": 8})
