"""Reference GraphQL server: graphql-core parse / validate / coerce / execute over a schema built by the
harness from the case's SDL (independent of anything ariadne-codegen computed), with *world* resolvers
that script runtime types, nulls and list lengths and hand out unique-token scalar values."""
from __future__ import annotations

import json
import random
from typing import Any, Dict, List, Optional, Tuple

from graphql import (
    ExecutionResult,
    GraphQLEnumType,
    GraphQLList,
    GraphQLNonNull,
    GraphQLObjectType,
    GraphQLSchema,
    execute_sync,
    get_named_type,
    is_abstract_type,
    is_leaf_type,
    parse,
    specified_rules,
    validate,
)


class Node:
    __slots__ = ("typename",)

    def __init__(self, typename: str):
        self.typename = typename


class World:
    """mode: full | nulls | allnull | empty | single | sweep:<k>"""
    BUDGET = 4000

    def __init__(self, schema: GraphQLSchema, seed: int, mode: str = "full", rotation: int = 0, custom_scalar_values=None):
        self.schema = schema
        self.rng = random.Random(seed)
        self.mode = mode
        self.rotation = rotation
        self.tok = 0
        self.rot: Dict[str, int] = {}
        self.nullable_decisions = 0
        self.sweep_k = int(mode.split(":")[1]) if mode.startswith("sweep:") else None
        self.types: Dict[Tuple, Any] = {}  # response path -> GraphQL return type
        self.parent_types: Dict[Tuple, str] = {}
        self.received_args: List[Tuple[Tuple, str, Dict[str, Any]]] = []
        self.runtime_types_used: Dict[str, set] = {}
        self.custom_scalar_values = custom_scalar_values or {}
        self.scalar_tokens: Dict[str, List[Any]] = {}
        self.made = 0

    # -- decisions
    def null_here(self) -> bool:
        k = self.nullable_decisions
        self.nullable_decisions += 1
        if self.mode == "allnull":
            return True
        if self.mode == "nulls":
            return self.rng.random() < 0.3
        if self.sweep_k is not None:
            return k == self.sweep_k
        return False

    def list_len(self) -> int:
        if self.mode == "empty":
            return 0
        if self.mode == "single":
            return 1
        if self.mode == "nulls":
            return self.rng.choice([0, 1, 3])
        if self.mode == "full3":
            return 3
        return 2

    def pick_runtime(self, t) -> str:
        poss = sorted(x.name for x in self.schema.get_possible_types(t))
        i = self.rot.get(t.name, self.rotation)
        self.rot[t.name] = i + 1
        name = poss[i % len(poss)]
        self.runtime_types_used.setdefault(t.name, set()).add(name)
        return name

    def token(self, named) -> Any:
        self.tok += 1
        n = self.tok
        name = named.name
        if isinstance(named, GraphQLEnumType):
            vals = list(named.values)
            return vals[n % len(vals)]
        if name == "Int":
            return 1000 + n
        if name == "Float":
            return n + 0.5
        if name == "String":
            return "s#%d" % n
        if name == "ID":
            return "id#%d" % n
        if name == "Boolean":
            return n % 2 == 0
        # custom scalar
        gen = self.custom_scalar_values.get(name)
        v = gen(n) if gen else "cs#%d" % n
        self.scalar_tokens.setdefault(name, []).append(v)
        return v

    def make(self, t, nullable: bool = True) -> Any:
        if isinstance(t, GraphQLNonNull):
            return self.make(t.of_type, False)
        if nullable and self.null_here():
            return None
        if isinstance(t, GraphQLList):
            n = self.list_len()
            if self.made > self.BUDGET:
                n = min(n, 1)  # nested lists of composite types multiply: past the budget the response stays conformant but stops growing
            return [self.make(t.of_type) for _ in range(n)]
        self.made += 1
        if is_leaf_type(t):
            return self.token(t)
        if is_abstract_type(t):
            return Node(self.pick_runtime(t))
        return Node(t.name)

    # -- graphql-core hooks
    def resolve(self, source, info, **args):
        path = tuple(info.path.as_list())
        self.types[path] = info.return_type
        self.parent_types[path] = info.parent_type.name
        self.received_args.append((path, info.field_name, args))
        if info.field_name == "__typename":  # never reached: graphql-core answers introspection fields itself
            return info.parent_type.name
        return self.make(info.return_type)

    def resolve_type(self, value, info, abstract_type):
        return value.typename


def strip_indices(path: Tuple) -> Tuple:
    return tuple(p for p in path if not isinstance(p, int))


def run_query(schema: GraphQLSchema, world: World, query: str, variables: Optional[Dict[str, Any]], operation_name: Optional[str]):
    """-> (response dict as a server would send it, validation errors, ExecutionResult)"""
    doc = parse(query)
    errs = validate(schema, doc, specified_rules)
    if errs:
        return {"errors": [{"message": e.message} for e in errs]}, errs, None
    res = execute_sync(schema, doc, variable_values=variables, operation_name=operation_name,
                       field_resolver=world.resolve, type_resolver=world.resolve_type)
    if not isinstance(res, ExecutionResult):
        raise RuntimeError("async execution result")
    out: Dict[str, Any] = {}
    if res.errors:
        out["errors"] = [e.formatted for e in res.errors]
    out["data"] = res.data
    return json.loads(json.dumps(out)), [], res
