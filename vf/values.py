"""Argument workloads: abstract values (JSON trees keyed by GraphQL names, OMIT for 'not supplied') for an
operation's variables, and their translation into Python arguments of a generated method."""
from __future__ import annotations

import inspect
import random
import sys
from typing import Any, Dict, List, Optional, Tuple

from graphql import (
    GraphQLEnumType,
    GraphQLInputObjectType,
    GraphQLList,
    GraphQLNonNull,
    GraphQLScalarType,
    get_named_type,
    is_required_input_field,
    type_from_ast,
)


class _Omit:
    def __repr__(self):
        return "OMIT"


OMIT = _Omit()


class ValueGen:
    def __init__(self, schema, rng: random.Random, custom_scalar_values=None):
        self.schema = schema
        self.rng = rng
        self.n = 0
        self.feats = set()
        self.custom_scalar_values = custom_scalar_values or {}

    def tok(self) -> int:
        self.n += 1
        return self.n

    def scalar(self, t) -> Any:
        n = self.tok()
        name = t.name
        if self.rng.random() < 0.12 and name in ("Int", "Float", "String", "Boolean"):
            self.feats.add("value.falsy_scalar")
            return {"Int": 0, "Float": 0.0, "String": "", "Boolean": False}[name]
        if isinstance(t, GraphQLEnumType):
            vals = list(t.values)
            return vals[n % len(vals)]
        if name == "Int":
            return 500 + n
        if name == "Float":
            if n % 7 == 3:
                self.feats.add("value.float_integer_beyond_2_53")
                return 2 ** 53 + 2 * n  # (representable as a double) an integer number is a Float value too; sixteen and more digits travel as a JSON number like any other
            return n + 0.25
        if name == "String":
            return self.rng.choice(["str#%d", "with \"quotes\" %d", "uni ☃ %d", "line\nbreak %d"]) % n
        if name == "ID":
            return "id#%d" % n
        if name == "Boolean":
            return n % 2 == 0
        gen = self.custom_scalar_values.get(name)
        if gen is None and n % 5 == 2:
            self.feats.add("value.custom_scalar_integer_beyond_2_63")
            return 2 ** 63 + n  # an unconfigured scalar carries whatever JSON value the caller gives it, unchanged
        return gen(n) if gen else "cs-in#%d" % n

    def value(self, t, depth: int = 0, minimal: bool = False, top: bool = False) -> Any:
        rng = self.rng
        if isinstance(t, GraphQLNonNull):
            return self._nonnull(t.of_type, depth, minimal)
        if top:
            r = rng.random()
            if minimal or r < 0.3:
                self.feats.add("arg.omitted")
                return OMIT
            if r < 0.45:
                self.feats.add("arg.none")
                return None
        elif minimal or rng.random() < 0.15:
            self.feats.add("value.null")
            return None
        return self._nonnull(t, depth, minimal)

    def _nonnull(self, t, depth: int, minimal: bool) -> Any:
        rng = self.rng
        if isinstance(t, GraphQLList):
            n = 0 if minimal else rng.randrange(0, 4)
            if not minimal and depth == 0 and isinstance(get_named_type(t), GraphQLInputObjectType) and self.n % 9 == 4:
                n = 101 + self.n % 23  # a bulk call: more than a hundred input objects in one list
                self.feats.add("value.list_100plus_input_objects")
            self.feats.add("value.list%d" % min(n, 2))
            items = [self.value(t.of_type, depth + 1, minimal) for _ in range(n)]
            if items and not isinstance(t.of_type, GraphQLNonNull) and rng.random() < 0.25:
                items[0] = None  # a list that starts with null and continues with values
                self.feats.add("value.list_leading_null")
            return items
        if isinstance(t, GraphQLInputObjectType):
            out = {}
            for fname, f in t.fields.items():
                required = is_required_input_field(f)
                if required:
                    out[fname] = self.value(f.type, depth + 1, minimal)
                elif not minimal and depth < 3 and rng.random() < 0.5:
                    out[fname] = self.value(f.type, depth + 1, minimal)
                    self.feats.add("input.optional_set")
                else:
                    self.feats.add("input.field_unset")
            self.feats.add("value.input_object")
            return out
        return self.scalar(t)

    def variables(self, opnode, minimal: bool = False) -> Dict[str, Any]:
        out = {}
        for vd in opnode.variable_definitions or ():
            t = type_from_ast(self.schema, vd.type)
            out[vd.variable.name.value] = self.value(t, 0, minimal, top=True)
        return out


def strip_omit(tree: Dict[str, Any]) -> Dict[str, Any]:
    return {k: v for k, v in tree.items() if v is not OMIT}


def build_python(pkg, cfg, t, tree: Any, by_alias: bool, transform=None) -> Any:
    """GraphQL input type `t` + abstract value -> Python value as the generated code expects it."""
    if tree is None:
        return None
    if isinstance(t, GraphQLNonNull):
        return build_python(pkg, cfg, t.of_type, tree, by_alias, transform)
    if isinstance(t, GraphQLList):
        return [build_python(pkg, cfg, t.of_type, x, by_alias, transform) for x in tree]
    if isinstance(t, GraphQLEnumType):
        mod = sys.modules["%s.%s" % (pkg.__name__, cfg.get("enums_module_name", "enums"))]
        return getattr(mod, t.name)(tree)
    if isinstance(t, GraphQLInputObjectType):
        mod = sys.modules["%s.%s" % (pkg.__name__, cfg.get("input_types_module_name", "input_types"))]
        cls = getattr(mod, t.name)
        kw = {}
        for fname, sub in tree.items():
            kw[fname] = build_python(pkg, cfg, t.fields[fname].type, sub, by_alias, transform)
        if by_alias:
            return cls(**kw) if all(k.isidentifier() for k in kw) and False else cls.model_validate(kw)
        alias_to_name = {(fi.alias or n): n for n, fi in cls.model_fields.items()}
        return cls(**{alias_to_name[k]: v for k, v in kw.items()})
    if transform is not None and isinstance(t, GraphQLScalarType):
        return transform(t.name, tree)
    return tree


def param_names(client, mname: str) -> List[str]:
    sig = inspect.signature(getattr(client, mname))
    return [p for p, v in sig.parameters.items() if v.kind is not inspect.Parameter.VAR_KEYWORD]


def python_args(pkg, cfg, opnode, tree: Dict[str, Any], schema, by_alias: bool = True, pmap: Optional[Dict[str, str]] = None, transform=None) -> Dict[str, Any]:
    """variables tree -> kwargs for the generated method.  pmap: GraphQL variable name -> parameter name
    (learned by observation, see probe_param_map); falls back to a positional rule derived from the signature."""
    out = {}
    for vd in opnode.variable_definitions or ():
        name = vd.variable.name.value
        v = tree.get(name, OMIT)
        if v is OMIT:
            continue
        t = type_from_ast(schema, vd.type)
        pname = pmap[name] if pmap else name
        out[pname] = build_python(pkg, cfg, t, v, by_alias, transform)
    return out
