"""Deterministic oracles shared by several properties.  Pure functions over observations."""
from __future__ import annotations

import copy
import enum
import json
import typing
from typing import Any, Dict, List, Optional, Set, Tuple

from graphql import (
    DocumentNode,
    FieldNode,
    FragmentDefinitionNode,
    FragmentSpreadNode,
    GraphQLEnumType,
    GraphQLList,
    GraphQLNonNull,
    GraphQLScalarType,
    InlineFragmentNode,
    OperationDefinitionNode,
    get_named_type,
    is_abstract_type,
    is_composite_type,
    is_leaf_type,
)

BUILTIN = {"String": str, "ID": str, "Int": int, "Float": float, "Boolean": bool}


# --------------------------------------------------------------------------- C01 parallel walk


def wire_map(model_cls) -> Dict[str, List[str]]:
    out: Dict[str, List[str]] = {}
    for fname, finfo in model_cls.model_fields.items():
        wire = finfo.alias or fname
        out.setdefault(wire, []).append(fname)
    return out


def literal_args(model_cls, fname: str) -> Optional[Set[str]]:
    ann = model_cls.model_fields[fname].annotation
    if typing.get_origin(ann) is typing.Literal:
        return set(typing.get_args(ann))
    return None


def walk(obj: Any, raw: Any, path: Tuple, types: Dict[Tuple, Any], out: List[Tuple[str, str]], stats: Dict[str, int], schema,
         scalar_expect=None, pyname=None) -> None:
    """Parallel walk of response JSON `raw` and returned object `obj`.  Appends (clause, detail) to out."""
    from pydantic import BaseModel

    if len(out) > 20:
        return
    if raw is None:
        if obj is not None:
            out.append(("value-equal", "%r: null in response, %r in model" % (path, obj)))
        stats["nulls"] = stats.get("nulls", 0) + 1
        return
    if isinstance(raw, list):
        if not isinstance(obj, list) or len(obj) != len(raw):
            out.append(("list-shape", "%r: response list of %d, model has %r" % (path, len(raw), type(obj).__name__ if not isinstance(obj, list) else len(obj))))
            return
        stats["lists"] = stats.get("lists", 0) + 1
        for i, (o, r) in enumerate(zip(obj, raw)):
            walk(o, r, path + (i,), types, out, stats, schema, scalar_expect, pyname)
        return
    if isinstance(raw, dict):
        if not isinstance(obj, BaseModel):
            out.append(("object-shape", "%r: response object, model holds %r" % (path, type(obj).__name__)))
            return
        stats["objects"] = stats.get("objects", 0) + 1
        wm = wire_map(type(obj))
        t = type_at(types, path) if path else None
        named = get_named_type(t) if t is not None else None
        if named is not None and is_abstract_type(named):
            stats["abstract_positions"] = stats.get("abstract_positions", 0) + 1
            if "__typename" not in raw:
                out.append(("auto-typename", "%r: abstract position of type %s but the response has no __typename (query sent without it)" % (path, named.name)))
        if "__typename" in raw:
            names = wm.get("__typename", [])
            if len(names) != 1:
                out.append(("typename-field", "%r: %d model fields carry __typename" % (path, len(names))))
            else:
                lit = literal_args(type(obj), names[0])
                val = getattr(obj, names[0])
                if val != raw["__typename"]:
                    out.append(("typename-value", "%r: typename %r != %r" % (path, val, raw["__typename"])))
                if path != () and lit is not None and raw["__typename"] not in lit:
                    out.append(("typename-literal", "%r: runtime type %r not in Literal%r of class %s" % (path, raw["__typename"], sorted(lit), type(obj).__name__)))
                if path != () and lit is None and named is not None and is_abstract_type(named):
                    out.append(("typename-literal", "%r: class %s at abstract position has no __typename Literal" % (path, type(obj).__name__)))
                stats["typename_checks"] = stats.get("typename_checks", 0) + 1
        for k, v in raw.items():
            names = wm.get(k, [])
            if len(names) != 1:
                out.append(("key-exposed", "%r: response key %r is carried by %d fields of %s (fields: %r)" % (path, k, len(names), type(obj).__name__, sorted(type(obj).model_fields))))
                continue
            if pyname is not None:
                want = pyname(k)
                stats["python_names_checked"] = stats.get("python_names_checked", 0) + 1
                if want is not None and names[0] != want:
                    out.append(("python-name", "%r: response key %r is exposed as attribute %r of %s; its Python name under this configuration is %r" % (
                        path, k, names[0], type(obj).__name__, want)))
            walk(getattr(obj, names[0]), v, path + (k,), types, out, stats, schema, scalar_expect, pyname)
        return
    # leaf
    t = type_at(types, path)
    named = get_named_type(t) if t is not None else None
    stats["leaves"] = stats.get("leaves", 0) + 1
    if isinstance(named, GraphQLEnumType):
        stats["enum_leaves"] = stats.get("enum_leaves", 0) + 1
        if not isinstance(obj, enum.Enum):
            out.append(("enum-member", "%r: enum value %r arrived as %r (%s)" % (path, raw, obj, type(obj).__name__)))
        elif obj.value != raw or obj.name.rstrip("_") != raw.rstrip("_") or type(obj).__name__ != named.name:
            out.append(("enum-member", "%r: enum value %r arrived as member %r of %s" % (path, raw, obj, type(obj).__name__)))
        return
    if scalar_expect is not None and named is not None and named.name in scalar_expect:
        exp = scalar_expect[named.name](raw)
        if obj != exp or type(obj) is not type(exp):
            out.append(("scalar-parsed", "%r: custom scalar %s raw %r arrived as %r expected %r" % (path, named.name, raw, obj, exp)))
        return
    if obj != raw or type(obj) is not type(raw):
        out.append(("value-equal", "%r: response value %r, model value %r" % (path, raw, obj)))


# --------------------------------------------------------------------------- document analysis


def response_paths(doc: DocumentNode, op: OperationDefinitionNode) -> Dict[Tuple, Dict[str, Any]]:
    """Response-key paths (no list indices) -> {'conditional': every occurrence carries/inherits @skip/@include, 'count': occurrences}."""
    frags = {d.name.value: d for d in doc.definitions if isinstance(d, FragmentDefinitionNode)}
    out: Dict[Tuple, Dict[str, Any]] = {}

    def cond(node) -> bool:
        return any(d.name.value in ("skip", "include") for d in (node.directives or ()))

    def visit(selset, path: Tuple, conditional: bool, typed: bool, stack: Tuple):
        for sel in selset.selections:
            if isinstance(sel, FieldNode):
                key = sel.alias.value if sel.alias else sel.name.value
                p = path + (key,)
                c = conditional or cond(sel)
                info = out.setdefault(p, {"conditional": True, "count": 0, "typed": True, "field_directive": False, "aliased_typename": False})
                if sel.name.value == "__typename" and sel.alias is not None:
                    info["aliased_typename"] = True
                info["count"] += 1
                info["conditional"] = info["conditional"] and c
                info["typed"] = info["typed"] and typed
                info["field_directive"] = info["field_directive"] or cond(sel)
                if sel.selection_set:
                    visit(sel.selection_set, p, False, False, stack)  # a child is unconditional *given* its parent is present
            elif isinstance(sel, InlineFragmentNode):
                visit(sel.selection_set, path, conditional or cond(sel), typed or sel.type_condition is not None, stack)
            elif isinstance(sel, FragmentSpreadNode):
                name = sel.name.value
                if name in stack:
                    continue
                visit(frags[name].selection_set, path, conditional or cond(sel), True, stack + (name,))

    visit(op.selection_set, (), False, False, ())
    return out


def static_field_types(doc: DocumentNode, op: OperationDefinitionNode, schema) -> Dict[Tuple, Set[str]]:
    """Response-key path -> the set of *statically declared* GraphQL types of its occurrences (a key selected on an interface and again
    inside a fragment on an implementing object can have two different, covariant, types)."""
    frags = {d.name.value: d for d in doc.definitions if isinstance(d, FragmentDefinitionNode)}
    out: Dict[Tuple, Set[str]] = {}
    root = {"query": schema.query_type, "mutation": schema.mutation_type, "subscription": schema.subscription_type}[op.operation.value]

    def visit(selset, path: Tuple, t, stack: Tuple):
        for sel in selset.selections:
            if isinstance(sel, FieldNode):
                if sel.name.value == "__typename" or not hasattr(t, "fields") or sel.name.value not in t.fields:
                    continue
                key = sel.alias.value if sel.alias else sel.name.value
                ft = t.fields[sel.name.value].type
                out.setdefault(path + (key,), set()).add(str(ft))
                if sel.selection_set:
                    visit(sel.selection_set, path + (key,), get_named_type(ft), stack)
            elif isinstance(sel, InlineFragmentNode):
                tt = schema.type_map[sel.type_condition.name.value] if sel.type_condition else t
                visit(sel.selection_set, path, tt, stack)
            elif isinstance(sel, FragmentSpreadNode):
                name = sel.name.value
                if name in stack:
                    continue
                visit(frags[name].selection_set, path, schema.type_map[frags[name].type_condition.name.value], stack + (name,))

    visit(op.selection_set, (), root, ())
    return out


# --------------------------------------------------------------------------- C05 corruptions


def key_path(path: Tuple) -> Tuple:
    return tuple(p for p in path if not isinstance(p, int))


def enumerate_positions(raw: Any, path: Tuple = ()) -> List[Tuple[Tuple, Any]]:
    out = [(path, raw)]
    if isinstance(raw, dict):
        for k, v in raw.items():
            out.extend(enumerate_positions(v, path + (k,)))
    elif isinstance(raw, list):
        for i, v in enumerate(raw):
            out.extend(enumerate_positions(v, path + (i,)))
    return out


def set_at(data: Any, path: Tuple, value: Any, remove: bool = False) -> Any:
    d = copy.deepcopy(data)
    cur = d
    for p in path[:-1]:
        cur = cur[p]
    if remove:
        del cur[path[-1]]
    else:
        cur[path[-1]] = value
    return d


def type_at(types: Dict[Tuple, Any], path: Tuple):
    """GraphQL type of the value at `path` (list indices peel one list layer off the field's return type)."""
    # find the longest prefix that ends with a key
    idx = len(path)
    while idx > 0 and isinstance(path[idx - 1], int):
        idx -= 1
    base = types.get(path[:idx]) if idx > 0 else None
    if base is None:
        # types are recorded with indices *inside* the prefix, e.g. ('a', 0, 'b')
        return None
    t = base
    for _ in path[idx:]:
        if isinstance(t, GraphQLNonNull):
            t = t.of_type
        if isinstance(t, GraphQLList):
            t = t.of_type
        else:
            return None
    return t


def impossible_typenames(schema, holder_type, rng, static_names: Optional[Set[str]] = None, near: Optional[Set[str]] = None) -> List[str]:
    """Names that are not a possible type of a position of type `holder_type`: a name no type has, a real object type of the schema that cannot
    occur there, and the name of an abstract type (responses never carry one)."""
    names = ["NotAPossibleType"]
    if schema is None or holder_type is None:
        return names
    from graphql import GraphQLObjectType, is_abstract_type
    named = get_named_type(holder_type)
    ok: Set[str] = set()
    for nt in [named] + [schema.type_map[n.strip("[]!")] for n in (static_names or ()) if n.strip("[]!") in schema.type_map]:
        # every declaration the selection may have been written against (an object can refine an interface field covariantly)
        ok |= {o.name for o in schema.get_possible_types(nt)} if is_abstract_type(nt) else {nt.name}
    roots = {t.name for t in (schema.query_type, schema.mutation_type, schema.subscription_type) if t is not None}
    foreign = sorted(n for n, t in schema.type_map.items() if isinstance(t, GraphQLObjectType) and not n.startswith("__") and n not in ok and n not in roots)
    if foreign:
        # prefer object types that some type condition written in the document can match (a fragment on an overlapping interface or union):
        # those are the names a sloppy Literal is most likely to admit
        close = [n for n in foreign if n in (near or ())]
        names.append(rng.choice(close) if close and rng.random() < 0.8 else rng.choice(foreign))
    abstract = sorted(n for n, t in schema.type_map.items() if is_abstract_type(t) and n not in ok)
    if abstract:
        names.append(named.name if (is_abstract_type(named) and rng.random() < 0.5) else rng.choice(abstract))
    return names


def corruptions(data: Dict[str, Any], types: Dict[Tuple, Any], rpaths: Dict[Tuple, Dict[str, Any]], custom_any: Set[str], limit: int, rng,
                static_types: Optional[Dict[Tuple, Set[str]]] = None, schema=None, near: Optional[Set[str]] = None) -> List[Tuple[str, Tuple, Any]]:
    """-> [(kind, path, corrupted data)] single-point corruptions that the statement says must be rejected."""
    out: List[Tuple[str, Tuple, Any]] = []
    positions = [p for p in enumerate_positions(data) if p[0]]
    rng.shuffle(positions)

    def holder_static(path):
        fp = path[:-1]
        while fp and isinstance(fp[-1], int):
            fp = fp[:-1]
        return (static_types or {}).get(key_path(fp))

    # __typename positions are few and each is its own obligation: they are all visited, outside the per-response budget of the other kinds
    tn_budget = 3 * limit
    positions.sort(key=lambda pv: 0 if (pv[0][-1] == "__typename" or (rpaths.get(key_path(pv[0])) or {}).get("aliased_typename")) else 1)
    for path, value in positions:
        is_tn = path[-1] == "__typename" or bool((rpaths.get(key_path(path)) or {}).get("aliased_typename"))
        if len(out) >= (tn_budget if is_tn else limit + sum(1 for o in out if o[0] == "typename-not-possible")):
            if is_tn:
                continue
            break
        if path[-1] == "__typename":
            if len(path) > 1 and type_at(types, path[:-1]) is not None:
                for bad in impossible_typenames(schema, type_at(types, path[:-1]), rng, holder_static(path), near):
                    out.append(("typename-not-possible", path, set_at(data, path, bad)))
            continue
        if (rpaths.get(key_path(path)) or {}).get("aliased_typename") and isinstance(value, str):
            # `kind: __typename` - the same obligation under another response key
            if len(path) > 1 and type_at(types, path[:-1]) is not None and not rpaths[key_path(path)]["conditional"]:
                for bad in impossible_typenames(schema, type_at(types, path[:-1]), rng, holder_static(path), near):
                    out.append(("typename-not-possible", path, set_at(data, path, bad)))
            continue
        t = type_at(types, path)
        if t is None:
            continue
        kp = key_path(path)
        info = rpaths.get(kp)
        if info is None:
            continue
        is_key = not isinstance(path[-1], int)
        named = get_named_type(t)
        unconditional = not info["conditional"] and not info["field_directive"]
        if is_key and unconditional and info["count"] == 1:
            out.append(("key-removed", path, set_at(data, path, None, remove=True)))
        if isinstance(named, GraphQLScalarType) and named.name in custom_any:
            continue  # typed Any: cannot reject anything, by the statement's own mapping
        # the runtime type's declaration can be stricter (covariant) than the declaration the selection was written against:
        # only positions whose every static occurrence agrees with what the executor used are obligations
        field_path = path
        while field_path and isinstance(field_path[-1], int):
            field_path = field_path[:-1]
        st = (static_types or {}).get(key_path(field_path))
        agrees = static_types is None or (st is not None and st == {str(types.get(field_path))})
        if isinstance(t, GraphQLNonNull) and ((unconditional and info["count"] == 1) or not is_key) and agrees:
            out.append(("null-at-nonnull", path, set_at(data, path, None)))
        if value is None:
            continue
        if isinstance(value, list):
            out.append(("kind-list-to-scalar", path, set_at(data, path, "not-a-list")))
            out.append(("kind-list-to-object", path, set_at(data, path, {"x": 1})))
        elif isinstance(value, dict):
            out.append(("kind-object-to-scalar", path, set_at(data, path, 17)))
            out.append(("kind-object-to-list", path, set_at(data, path, [1])))
        else:
            out.append(("kind-scalar-to-list", path, set_at(data, path, [value])))
            out.append(("kind-scalar-to-object", path, set_at(data, path, {"v": value})))
            # a scalar of another scalar kind, restricted to replacements no lenient reading can take for the declared kind
            wrong = {"String": [17, 2.5, True], "ID": [17, True], "Int": ["seventeen", 2.5], "Float": ["two and a half"], "Boolean": ["perhaps", 17]}.get(named.name)
            if isinstance(named, GraphQLEnumType):
                wrong = [17, True]
            if wrong and isinstance(named, (GraphQLScalarType, GraphQLEnumType)):
                out.append(("kind-scalar-to-other-scalar", path, set_at(data, path, wrong[rng.randrange(len(wrong))])))
    return out


# --------------------------------------------------------------------------- C05 annotation image


def unwrap_annotated(ann):
    while typing.get_origin(ann) is typing.Annotated:
        ann = typing.get_args(ann)[0]
    return ann


def match_annotation(ann, gtype, conditional: bool, enums_mod, custom_scalars: Dict[str, Any], path="", schema=None) -> Optional[str]:
    """None if `ann` (evaluated annotation) is the image of GraphQL type `gtype`; else a description."""
    from pydantic import BaseModel

    ann = unwrap_annotated(ann)
    nullable = not isinstance(gtype, GraphQLNonNull)
    inner_t = gtype.of_type if isinstance(gtype, GraphQLNonNull) else gtype
    origin = typing.get_origin(ann)
    args = typing.get_args(ann)
    is_opt = origin is typing.Union and type(None) in args
    want_opt = nullable or conditional
    if is_opt != want_opt:
        return "%s: annotation %r is %sOptional but the field is %s" % (path, ann, "" if is_opt else "not ", "nullable/conditional" if want_opt else "non-null and unconditional")
    if is_opt:
        rest = [a for a in args if a is not type(None)]
        ann = rest[0] if len(rest) == 1 else typing.Union[tuple(rest)]
        ann = unwrap_annotated(ann)
        origin = typing.get_origin(ann)
        args = typing.get_args(ann)
    if isinstance(inner_t, GraphQLList):
        if origin not in (list, typing.List):
            return "%s: GraphQL list mapped to %r" % (path, ann)
        return match_annotation(args[0], inner_t.of_type, False, enums_mod, custom_scalars, path + "[]", schema)
    if origin in (list, typing.List):
        return "%s: non-list GraphQL type %s mapped to %r" % (path, inner_t, ann)
    named = inner_t
    if isinstance(named, GraphQLEnumType):
        cls = getattr(enums_mod, named.name, None)
        if ann is not cls:
            return "%s: enum %s mapped to %r" % (path, named.name, ann)
        return None
    if isinstance(named, GraphQLScalarType):
        if named.name in BUILTIN:
            if ann is not BUILTIN[named.name]:
                return "%s: %s mapped to %r" % (path, named.name, ann)
            return None
        if named.name in custom_scalars:
            if ann is not custom_scalars[named.name]:
                return "%s: configured scalar %s mapped to %r" % (path, named.name, ann)
            return None
        if ann is not typing.Any:
            return "%s: unconfigured custom scalar %s mapped to %r (expected Any)" % (path, named.name, ann)
        return None
    # composite
    members = args if origin is typing.Union else (ann,)
    for m in members:
        m = unwrap_annotated(m)
        if not (isinstance(m, type) and issubclass(m, BaseModel)):
            return "%s: composite type %s mapped to %r" % (path, named.name, ann)
    if origin is typing.Union and not is_abstract_type(named):
        return "%s: object type %s mapped to a Union %r" % (path, named.name, ann)
    if schema is not None and is_abstract_type(named):
        # the __typename Literals of the member classes together say which runtime types the position admits: no object type outside the
        # position's possible types may be among them (abstract type names in the Literal are the separately listed finding)
        possible = {o.name for o in schema.get_possible_types(named)}
        admitted = set()
        for m in members:
            m = unwrap_annotated(m)
            for fname, fi in m.model_fields.items():
                if (fi.alias or fname) == "__typename":
                    lit = unwrap_annotated(fi.annotation)
                    if typing.get_origin(lit) is typing.Literal:
                        admitted |= {a for a in typing.get_args(lit) if isinstance(a, str)}
        foreign = sorted(n for n in admitted - possible if n in schema.type_map and not is_abstract_type(schema.type_map[n]))
        if foreign:
            return "typename-literal-foreign-type: %s: classes for a position of type %s admit __typename %r, which %s can never be (possible: %r)" % (
                path, named.name, foreign, named.name, sorted(possible))
    return None
