"""./check <PROPERTY> quick|thorough [--replay file]"""
import importlib
import json
import os
import sys

from . import core


def main(argv):
    if len(argv) < 1:
        print("usage: check <C01..C19> [quick|thorough] [--replay file]")
        return 64
    prop = argv[0].upper()
    tier = os.environ.get("VERIF_TIER", "quick")
    replay = None
    rest = argv[1:]
    i = 0
    while i < len(rest):
        if rest[i] in ("quick", "thorough"):
            tier = rest[i]
        elif rest[i] == "--replay":
            replay = rest[i + 1]
            i += 1
        i += 1
    core.use_repo()
    mod = importlib.import_module("vf.props.%s" % prop.lower())
    seed = core.seed_from_env(0)
    if replay:
        data = json.loads(open(replay).read())
        return mod.replay(data)
    return mod.run(tier, seed)


if __name__ == "__main__":
    sys.exit(main(sys.argv[1:]))
