"""Shared plumbing: repo location, fork-per-case executor, verdicts, evidence, findings.

Everything here is harness code; nothing is imported from /verif by the repository.
"""
from __future__ import annotations

import hashlib
import json
import os
import pickle
import selectors
import shutil
import signal
import sys
import tempfile
import time
import traceback
from dataclasses import dataclass, field
from pathlib import Path
from typing import Any, Callable, Dict, Iterable, List, Optional

VERIF = Path(__file__).resolve().parent.parent
REPO = Path(os.environ.get("VERIF_REPO", "/repo")).resolve()
# runs against a patched scratch copy (VERIF_REPO=...) are self-tests of the machinery: their output must never replace the evidence of /repo itself
EVIDENCE_DIR = (VERIF / "evidence") if str(REPO) == "/repo" else (VERIF / "evidence" / "replay" / "scratch-evidence")
REPLAY_DIR = VERIF / "evidence" / "replay"
KNOWN_FINDINGS_FILE = VERIF / "known_findings.json"
WORKERS = int(os.environ.get("VERIF_WORKERS", "16"))


def use_repo() -> None:
    """Make `import ariadne_codegen` resolve to the tree under test (current working tree)."""
    p = str(REPO)
    if p in sys.path:
        sys.path.remove(p)
    sys.path.insert(0, p)
    for name in list(sys.modules):
        if name == "ariadne_codegen" or name.startswith("ariadne_codegen."):
            mod = sys.modules[name]
            f = getattr(mod, "__file__", "") or ""
            if not f.startswith(p + os.sep):
                del sys.modules[name]


def seed_from_env(default: int = 0) -> int:
    try:
        return int(os.environ.get("VERIF_SEED", default))
    except ValueError:
        return default


# --------------------------------------------------------------------------- verdicts


@dataclass
class Violation:
    prop: str
    clause: str  # which clause of the oracle failed
    detail: str  # human-readable explanation
    features: List[str] = field(default_factory=list)  # generator switches the case used
    case: Any = None  # replayable case description (JSON-able)
    mech: str = ""  # mechanism key used to match known findings

    def to_json(self) -> Dict[str, Any]:
        return {
            "property": self.prop,
            "clause": self.clause,
            "mech": self.mech,
            "detail": self.detail,
            "features": self.features,
            "case": self.case,
        }


@dataclass
class CaseResult:
    """What a forked worker reports for one case."""

    status: str  # "held" | "violated" | "inconclusive"
    violations: List[Dict[str, Any]] = field(default_factory=list)
    stats: Dict[str, Any] = field(default_factory=dict)  # counters (added up by the parent)
    sets: Dict[str, List[str]] = field(default_factory=dict)  # set-valued observations (unioned)
    note: str = ""
    sample: Any = None


# --------------------------------------------------------------------------- fork executor


def _child(fn: Callable[[Any], CaseResult], case: Any, wfd: int) -> None:
    status = 0
    try:
        try:
            res = fn(case)
        except BaseException as exc:  # noqa: BLE001 - harness failure => inconclusive
            res = CaseResult(
                status="inconclusive",
                note="harness exception: %s: %s\n%s"
                % (type(exc).__name__, exc, traceback.format_exc()[-3000:]),
            )
        data = pickle.dumps(res)
        with os.fdopen(wfd, "wb") as f:
            f.write(data)
    except BaseException:  # noqa: BLE001
        status = 3
    finally:
        try:
            sys.stdout.flush()
            sys.stderr.flush()
        except Exception:  # noqa: BLE001
            pass
        os._exit(status)


def run_forked(
    cases: Iterable[Any],
    fn: Callable[[Any], CaseResult],
    workers: int = WORKERS,
    timeout_s: float = 120.0,
    on_result: Optional[Callable[[Any, CaseResult], None]] = None,
    deadline: Optional[float] = None,
) -> List[CaseResult]:
    """Run fn(case) in a fresh fork per case, `workers` at a time.

    A child that exceeds its wall-clock watchdog is killed and the case is *inconclusive*.
    `deadline` (time.time() value) stops launching new cases; running ones finish.
    """
    sel = selectors.DefaultSelector()
    running: Dict[int, Dict[str, Any]] = {}  # rfd -> info
    results: List[CaseResult] = []
    it = iter(cases)
    exhausted = False

    def launch() -> bool:
        nonlocal exhausted
        if exhausted:
            return False
        if deadline is not None and time.time() > deadline:
            exhausted = True
            return False
        try:
            case = next(it)
        except StopIteration:
            exhausted = True
            return False
        rfd, wfd = os.pipe()
        sys.stdout.flush()
        sys.stderr.flush()
        pid = os.fork()
        if pid == 0:
            os.close(rfd)
            for info in running.values():
                try:
                    os.close(info["rfd"])
                except OSError:
                    pass
            _child(fn, case, wfd)
        os.close(wfd)
        os.set_blocking(rfd, False)
        running[rfd] = {"pid": pid, "case": case, "buf": bytearray(), "t0": time.time(), "rfd": rfd}
        sel.register(rfd, selectors.EVENT_READ)
        return True

    def finish(rfd: int, timed_out: bool = False) -> None:
        info = running.pop(rfd)
        sel.unregister(rfd)
        os.close(rfd)
        if timed_out:
            try:
                os.kill(info["pid"], signal.SIGKILL)
            except ProcessLookupError:
                pass
        try:
            os.waitpid(info["pid"], 0)
        except ChildProcessError:
            pass
        if timed_out:
            res = CaseResult(status="inconclusive", note="watchdog: case exceeded %.0fs" % timeout_s)
        else:
            try:
                res = pickle.loads(bytes(info["buf"]))
            except Exception as exc:  # noqa: BLE001
                res = CaseResult(status="inconclusive", note="worker died without a result (%s)" % exc)
        results.append(res)
        if on_result:
            on_result(info["case"], res)

    while True:
        while len(running) < workers and launch():
            pass
        if not running:
            break
        for key, _ in sel.select(timeout=1.0):
            rfd = key.fd
            info = running[rfd]
            try:
                chunk = os.read(rfd, 1 << 16)
            except BlockingIOError:
                continue
            if chunk:
                info["buf"].extend(chunk)
            else:
                finish(rfd)
        now = time.time()
        for rfd in [r for r, i in running.items() if now - i["t0"] > timeout_s]:
            finish(rfd, timed_out=True)
    return results


# --------------------------------------------------------------------------- scratch dirs


class Scratch:
    """Per-case scratch directory, removed on exit. Lives under TMPDIR, never under /repo or /verif."""

    def __init__(self, prefix: str = "vf-") -> None:
        self.path = Path(tempfile.mkdtemp(prefix=prefix))

    def __enter__(self) -> Path:
        return self.path

    def __exit__(self, *exc: Any) -> None:
        shutil.rmtree(self.path, ignore_errors=True)


# --------------------------------------------------------------------------- known findings


def load_known() -> Dict[str, Any]:
    if KNOWN_FINDINGS_FILE.exists():
        return json.loads(KNOWN_FINDINGS_FILE.read_text())
    return {"known": [], "fixed": []}


def known_for(prop: str) -> List[Dict[str, Any]]:
    return [k for k in load_known().get("known", []) if k.get("property") == prop]


# --------------------------------------------------------------------------- run summary


@dataclass
class Run:
    """Accumulates a property check's outcome, prints the verdict lines, writes evidence."""

    prop: str
    tier: str
    seed: int
    level: str = "exploration"
    t0: float = field(default_factory=time.time)
    evaluations: int = 0
    held: int = 0
    inconclusive: int = 0
    violations: List[Dict[str, Any]] = field(default_factory=list)
    stats: Dict[str, float] = field(default_factory=dict)
    sets: Dict[str, set] = field(default_factory=dict)
    distinct: set = field(default_factory=set)
    samples: List[Any] = field(default_factory=list)
    notes: List[str] = field(default_factory=list)
    floors: Dict[str, int] = field(default_factory=dict)  # stat name -> minimum
    rule: str = ""
    assumptions: List[str] = field(default_factory=list)
    exhaustive: bool = False
    extra: Dict[str, Any] = field(default_factory=dict)
    max_samples: int = 6

    def add(self, case: Any, res: CaseResult) -> None:
        self.evaluations += 1
        if res.status == "held":
            self.held += 1
        elif res.status == "inconclusive":
            self.inconclusive += 1
            if res.note and len(self.notes) < 8:
                self.notes.append(res.note[:1500])
        for v in res.violations:
            self.violations.append(v)
        for k, v in res.stats.items():
            self.stats[k] = self.stats.get(k, 0) + v
        for k, vs in res.sets.items():
            self.sets.setdefault(k, set()).update(vs)
        if res.sample is not None and len(self.samples) < self.max_samples:
            self.samples.append(res.sample)

    def add_violation(self, v: Violation) -> None:
        self.violations.append(v.to_json())

    def count(self, key: str, n: float = 1) -> None:
        self.stats[key] = self.stats.get(key, 0) + n

    def mark_distinct(self, key: Any) -> None:
        self.distinct.add(key if isinstance(key, (str, int, tuple)) else json.dumps(key, sort_keys=True, default=str))

    # -- classification against known_findings.json ---------------------------------
    def _classify(self) -> (List[Dict[str, Any]], Dict[str, List[Dict[str, Any]]]):
        known = known_for(self.prop)
        new: List[Dict[str, Any]] = []
        attributed: Dict[str, List[Dict[str, Any]]] = {}
        for v in self.violations:
            hit = None
            for k in known:
                if v.get("mech") and v.get("mech") == k.get("key"):
                    hit = k
                    break
            if hit is None:
                new.append(v)
            else:
                attributed.setdefault(hit["key"], []).append(v)
        return new, attributed

    def finish(self) -> int:
        wall = time.time() - self.t0
        new, attributed = self._classify()
        known = {k["key"]: k for k in known_for(self.prop)}
        REPLAY_DIR.mkdir(parents=True, exist_ok=True)
        rc = 0
        for key, vs in sorted(attributed.items()):
            d = REPLAY_DIR / self.prop
            d.mkdir(parents=True, exist_ok=True)
            (d / ("known-%s.json" % key)).write_text(json.dumps(vs[0], indent=1, default=str))
            print("KNOWN-FINDING: property=%s %s [%s; reproduced %d time(s) this run]"
                  % (self.prop, known[key].get("what", key), key, len(vs)))
        # de-duplicate new violations by (clause, mech) for printing, keep all in the replay file
        seen = set()
        per_sig: Dict[Any, int] = {}
        pd = REPLAY_DIR / self.prop
        if pd.exists():
            for old_file in pd.glob("*.json"):
                if not old_file.name.startswith("known-"):
                    old_file.unlink()
        for v in new:
            sig = (v.get("clause"), v.get("mech"))
            h = hashlib.sha256(json.dumps(v, sort_keys=True, default=str).encode()).hexdigest()[:12]
            d = REPLAY_DIR / self.prop
            d.mkdir(parents=True, exist_ok=True)
            path = d / ("%s-%s.json" % (v.get("clause", "x").replace("/", "_")[:40], h))
            per_sig[sig] = per_sig.get(sig, 0) + 1
            if per_sig[sig] > 3:
                continue
            path.write_text(json.dumps(v, indent=1, default=str))
            if sig not in seen:
                print("VIOLATION property=%s replay=%s" % (self.prop, path))
                print("  clause=%s mech=%s\n  %s" % (v.get("clause"), v.get("mech"), str(v.get("detail"))[:1200].replace("\n", "\n  ")))
            seen.add(sig)
            rc = 1
        floor_fail = []
        for k, minimum in self.floors.items():
            have = self.stats.get(k, 0) if k in self.stats or k not in self.sets else len(self.sets[k])
            if k in self.sets:
                have = len(self.sets[k])
            if have < minimum:
                floor_fail.append("%s=%s<%s" % (k, have, minimum))
        if rc == 0 and floor_fail:
            print("INCONCLUSIVE property=%s observation floors not met: %s" % (self.prop, ", ".join(floor_fail)))
            for n in self.notes[:3]:
                print("  note: " + n.replace("\n", "\n    "))
            rc = 2
        cov: Dict[str, Any] = {
            "evaluations": int(self.evaluations),
            "distinct_nontrivial": int(len(self.distinct)),
            "rule": self.rule,
            "samples": self.samples[: self.max_samples] or [],
            "held": self.held,
            "inconclusive": self.inconclusive,
            "counters": {k: (int(v) if float(v).is_integer() else v) for k, v in sorted(self.stats.items())},
            "observed_sets": {k: sorted(v)[:200] for k, v in sorted(self.sets.items())},
            "observed_set_sizes": {k: len(v) for k, v in sorted(self.sets.items())},
            "known_findings_reproduced": {k: len(v) for k, v in attributed.items()},
            "new_violations": len(new),
            "floors": self.floors,
            "inconclusive_notes": self.notes[:5],
            "exhaustive": bool(self.exhaustive),
            "repo": str(REPO),
        }
        cov.update(self.extra)
        ev = {
            "property_id": self.prop,
            "tier": self.tier,
            "seed": int(self.seed),
            "level": self.level,
            "coverage": cov,
            "assumptions": self.assumptions,
            "wall_s": round(wall, 2),
            "violations": len(new),
        }
        EVIDENCE_DIR.mkdir(parents=True, exist_ok=True)
        (EVIDENCE_DIR / ("%s.json" % self.prop)).write_text(json.dumps(ev, indent=1, default=str))
        verdict = {0: "held on everything explored", 1: "VIOLATED", 2: "INCONCLUSIVE"}[rc]
        print("%s %s seed=%d: %s; evaluations=%d held=%d inconclusive=%d distinct=%d known=%d new=%d wall=%.1fs"
              % (self.prop, self.tier, self.seed, verdict, self.evaluations, self.held, self.inconclusive,
                 len(self.distinct), sum(len(v) for v in attributed.values()), len(new), wall))
        return rc
