"""Load the repository's bundled client dependency files the way generation ships them:
copied side by side into a package, imported with relative imports."""
from __future__ import annotations

import atexit
import importlib
import os
import shutil
import sys
import tempfile
from pathlib import Path
from types import SimpleNamespace

from . import core

_loaded = None


def load_deps() -> SimpleNamespace:
    global _loaded
    if _loaded is not None:
        return _loaded
    src = core.REPO / "ariadne_codegen" / "client_generators" / "dependencies"
    root = Path(tempfile.mkdtemp(prefix="vf-deps-"))
    pid = os.getpid()

    def _cleanup():
        if os.getpid() == pid:
            shutil.rmtree(root, ignore_errors=True)

    atexit.register(_cleanup)
    pkg = root / "vfdeps"
    pkg.mkdir()
    for f in src.glob("*.py"):
        shutil.copy(f, pkg / f.name)
    (pkg / "__init__.py").write_text("")
    sys.path.insert(0, str(root))
    ns = SimpleNamespace(root=root)
    for name in (
        "base_model",
        "exceptions",
        "base_client",
        "async_base_client",
        "base_client_open_telemetry",
        "async_base_client_open_telemetry",
    ):
        setattr(ns, name, importlib.import_module("vfdeps." + name))
    ns.clients = {
        "sync": ns.base_client.BaseClient,
        "async": ns.async_base_client.AsyncBaseClient,
        "sync_otel": ns.base_client_open_telemetry.BaseClientOpenTelemetry,
        "async_otel": ns.async_base_client_open_telemetry.AsyncBaseClientOpenTelemetry,
    }
    ns.modules = {
        "sync": ns.base_client,
        "async": ns.async_base_client,
        "sync_otel": ns.base_client_open_telemetry,
        "async_otel": ns.async_base_client_open_telemetry,
    }
    _loaded = ns
    return ns


# A recording tracer built on opentelemetry-api only (no SDK in the sandbox).
def make_tracer():
    from opentelemetry import trace
    from opentelemetry.trace import Span, SpanContext, TraceFlags, Tracer, use_span
    from contextlib import contextmanager
    import itertools

    counter = itertools.count(1)

    class RecSpan(Span):
        def __init__(self, name, rec):
            self.name = name
            self.attributes = {}
            self.ended = 0
            self.rec = rec
            n = next(counter)
            self._ctx = SpanContext(trace_id=0xABC, span_id=n, is_remote=False, trace_flags=TraceFlags(1))

        def get_span_context(self):
            return self._ctx

        def set_attributes(self, attributes):
            self.attributes.update(attributes)

        def set_attribute(self, key, value):
            # the OpenTelemetry API only permits str/bool/int/float (and sequences of them)
            if value is None or not isinstance(value, (str, bool, int, float, list, tuple)):
                self.rec.bad_attributes.append((self.name, key, repr(value)))
            self.attributes[key] = value

        def add_event(self, name, attributes=None, timestamp=None):
            pass

        def update_name(self, name):
            self.name = name

        def is_recording(self):
            return True

        def set_status(self, status, description=None):
            self.status = status

        def record_exception(self, exception, attributes=None, timestamp=None, escaped=False):
            self.exception = exception

        def end(self, end_time=None):
            self.ended += 1

    class RecTracer(Tracer):
        def __init__(self):
            self.spans = []
            self.bad_attributes = []

        def start_span(self, name, context=None, *a, **k):
            s = RecSpan(name, self)
            self.spans.append(s)
            return s

        @contextmanager
        def start_as_current_span(self, name, context=None, *a, **k):
            s = self.start_span(name, context)
            try:
                with use_span(s, end_on_exit=True):
                    yield s
            finally:
                pass

        def open_spans(self):
            return [s.name for s in self.spans if s.ended != 1]

    return RecTracer()
