"""Run the real generator (CLI entry point, in this process - callers fork one process per case),
import the generated package and drive its client against the reference server."""
from __future__ import annotations

import asyncio
import importlib
import inspect
import json
import os
import sys
import traceback
from dataclasses import dataclass, field
from pathlib import Path
from typing import Any, Callable, Dict, List, Optional, Tuple

import httpx
import toml

from . import core
from .world import World, run_query


@dataclass
class GenResult:
    ok: bool
    exit_code: int
    exception: Optional[BaseException]
    exc_type: str
    exc_is_codegen: bool
    stdout: str
    traceback: str
    package_dir: Path
    reported_files: List[str]
    config: Dict[str, Any]


def write_case(root: Path, sdl: Optional[str], queries: Optional[str], config: Dict[str, Any], schema_files: Optional[Dict[str, str]] = None,
               query_files: Optional[Dict[str, str]] = None, extra_files: Optional[Dict[str, str]] = None, section_style: str = "tool") -> Dict[str, Any]:
    cfg = dict(config)
    if schema_files:
        d = root / "schema_dir"
        for rel, text in schema_files.items():
            p = d / rel
            p.parent.mkdir(parents=True, exist_ok=True)
            p.write_text(text, encoding="utf-8")
        cfg.setdefault("schema_path", "schema_dir")
    elif sdl is not None:
        (root / "schema.graphql").write_text(sdl, encoding="utf-8")
        cfg.setdefault("schema_path", "schema.graphql")
    if query_files:
        d = root / "queries_dir"
        for rel, text in query_files.items():
            p = d / rel
            p.parent.mkdir(parents=True, exist_ok=True)
            p.write_text(text, encoding="utf-8")
        cfg.setdefault("queries_path", "queries_dir")
    elif queries is not None:
        (root / "queries.graphql").write_text(queries, encoding="utf-8")
        cfg.setdefault("queries_path", "queries.graphql")
    for rel, text in (extra_files or {}).items():
        p = root / rel
        p.parent.mkdir(parents=True, exist_ok=True)
        p.write_text(text, encoding="utf-8")
    cfg.setdefault("include_comments", "none")
    doc = {"tool": {"ariadne-codegen": cfg}} if section_style == "tool" else {"ariadne-codegen": cfg}
    (root / "pyproject.toml").write_text(toml.dumps(doc), encoding="utf-8")
    return cfg


def plant_stale_bundled_copies(root: Path, cfg: Dict[str, Any]) -> int:
    """The target package directory already exists and holds copies of the bundled files (base clients, base model, exceptions, __init__) left by ANOTHER release:
    other content, modification times newer than the installed generator's files and than every input.  A generation must replace them.  -> number of files planted."""
    import time
    base_dir = Path(cfg.get("target_package_path", str(root)))
    pkg_dir = (base_dir if base_dir.is_absolute() else Path(root) / base_dir) / cfg.get("target_package_name", "graphql_client")
    if pkg_dir.exists():
        return 0
    pkg_dir.mkdir(parents=True)
    # only files this configuration writes again (the generator does not clean its target: the base client of another configuration would rightly stay)
    own_base = ("async_" if cfg.get("async_client", True) else "") + "base_client" + ("_open_telemetry" if cfg.get("opentelemetry_client") else "") + ".py"
    names = ([] if cfg.get("base_client_file_path") else [own_base, "exceptions.py"]) + ["base_model.py", "__init__.py", "%s.py" % cfg.get("enums_module_name", "enums"),
                                                                     "%s.py" % cfg.get("input_types_module_name", "input_types"), "%s.py" % cfg.get("client_file_name", "client")]
    future = time.time() + 3600
    for fn in names:
        (pkg_dir / fn).write_text("raise RuntimeError('copy left by an older release: %s')\n" % fn)
        os.utime(pkg_dir / fn, (future, future))
    return len(names)


def run_cli(root: Path, strategy: Optional[str] = "client", config: Optional[Dict[str, Any]] = None, config_rel: Optional[str] = None) -> GenResult:
    """Invoke ariadne_codegen.main.main through click's test runner with cwd=root.  config_rel: the configuration is not ./pyproject.toml but this file
    (moved there), passed with --config; paths inside it stay relative to the working directory, as documented."""
    from click.testing import CliRunner

    from ariadne_codegen.exceptions import CodeGenException
    from ariadne_codegen.main import main

    config = config or {}
    old = os.getcwd()
    os.chdir(root)
    try:
        args = [strategy] if strategy else []
        if config_rel:
            dst = Path(root) / config_rel
            dst.parent.mkdir(parents=True, exist_ok=True)
            if (Path(root) / "pyproject.toml").exists():
                (Path(root) / "pyproject.toml").replace(dst)
            args = ["--config", config_rel] + args
        result = CliRunner().invoke(main, args, catch_exceptions=True)
    finally:
        os.chdir(old)
    exc = result.exception if not isinstance(result.exception, SystemExit) else None
    tb = ""
    if result.exc_info and exc is not None:
        tb = "".join(traceback.format_exception(*result.exc_info))[-4000:]
    out = result.output or ""
    reported: List[str] = []
    if "Generated files:" in out:
        tail = out.split("Generated files:")[1]
        reported = [l.strip() for l in tail.splitlines() if l.strip()]
    base_dir = Path(config.get("target_package_path", str(root)))
    pkg_dir = (base_dir if base_dir.is_absolute() else Path(root) / base_dir) / config.get("target_package_name", "graphql_client")
    return GenResult(ok=(result.exit_code == 0 and exc is None), exit_code=result.exit_code, exception=exc,
                     exc_type=type(exc).__name__ if exc is not None else "", exc_is_codegen=isinstance(exc, CodeGenException),
                     stdout=out, traceback=tb, package_dir=pkg_dir, reported_files=reported, config=config)


def reduced_sdl(sdl: str, thin: bool = False) -> Optional[str]:
    """A smaller schema sharing type names with the given one: every root type keeps only its first field, and only what is reachable from there stays.
    (A project generated earlier in the same interpreter that knows *some* of the later project's types, under the same names.)  None if that is not a valid schema."""
    from graphql import build_schema, parse, print_ast, validate_schema
    from graphql.language import ast as gast
    try:
        doc = parse(sdl)
        schema = build_schema(sdl)
        roots = {t.name for t in (schema.query_type, schema.mutation_type, schema.subscription_type) if t is not None}
        defs = {d.name.value: d for d in doc.definitions if isinstance(d, gast.TypeDefinitionNode)}
        for r in roots:
            d = defs[r]
            if thin != "leaves":  # (the leaves-only variant keeps every root field: all the types the roots return are known to it, nothing beyond them)
                d.fields = tuple(d.fields[:1])
        def names_in(node) -> List[str]:
            out: List[str] = []
            stack = [node]
            while stack:
                n = stack.pop()
                if isinstance(n, gast.NamedTypeNode):
                    out.append(n.name.value)
                for k in getattr(n, "keys", ()):
                    v = getattr(n, k, None)
                    if isinstance(v, gast.Node):
                        stack.append(v)
                    elif isinstance(v, (list, tuple)):
                        stack.extend(x for x in v if isinstance(x, gast.Node))
            return out
        if thin:
            # ... and every other object / interface type keeps its first field plus what its (equally thinned) interfaces demand: the same type NAMES with fewer members
            kept: Dict[str, set] = {}

            def kept_of(name: str, seen=()) -> set:
                if name in kept:
                    return kept[name]
                d_ = defs.get(name)
                if d_ is None or name in seen or not isinstance(d_, (gast.ObjectTypeDefinitionNode, gast.InterfaceTypeDefinitionNode)) or not d_.fields:
                    return set()
                ks = {d_.fields[0].name.value}
                if thin == "leaves":
                    # every field that does not lead to another object / interface / union type: what the real schema reaches THROUGH this type is unknown to the decoy
                    composite = {n2 for n2, d2 in defs.items() if isinstance(d2, (gast.ObjectTypeDefinitionNode, gast.InterfaceTypeDefinitionNode, gast.UnionTypeDefinitionNode))}
                    leaves = {f_.name.value for f_ in d_.fields if not (set(names_in(f_.type)) & composite)}
                    ks = leaves or ks
                for i_ in d_.interfaces or ():
                    ks |= kept_of(i_.name.value, tuple(seen) + (name,))
                kept[name] = ks
                return ks
            for n_, d_ in defs.items():
                if n_ not in roots and isinstance(d_, (gast.ObjectTypeDefinitionNode, gast.InterfaceTypeDefinitionNode)):
                    ks = kept_of(n_)
                    d_.fields = tuple(f_ for f_ in d_.fields if f_.name.value in ks)

        def names_in(node) -> List[str]:
            out: List[str] = []
            stack = [node]
            while stack:
                n = stack.pop()
                if isinstance(n, gast.NamedTypeNode):
                    out.append(n.name.value)
                for k in getattr(n, "keys", ()):
                    v = getattr(n, k, None)
                    if isinstance(v, gast.Node):
                        stack.append(v)
                    elif isinstance(v, (list, tuple)):
                        stack.extend(x for x in v if isinstance(x, gast.Node))
            return out
        keep = set(roots)
        todo = list(roots)
        while todo:
            for n in names_in(defs[todo.pop()]):
                if n in defs and n not in keep:
                    keep.add(n)
                    todo.append(n)
        parts = [print_ast(d) for d in doc.definitions if not isinstance(d, gast.TypeDefinitionNode) or d.name.value in keep]
        text = "\n\n".join(parts) + "\n"
        if validate_schema(build_schema(text)) or (keep == set(defs) and not thin):
            return None
        return text
    except Exception:  # noqa: BLE001
        return None


DECOY_KINDS = ["thin", "same", "part", "all", "leaves"]


def decoy_generations(root: Path, sdl: str, queries: Optional[str], other: Optional[Tuple[str, str]] = None, config: Optional[Dict[str, Any]] = None,
                      kind: str = "all") -> int:
    """History for the generation that follows: in THIS interpreter, generate something else first, each in its own directory under root/_decoys -
    kind "same": the same inputs under the given (default: empty) configuration; "part": a part of the schema (same type names, fewer types); "thin": the same type
    names with fewer fields; "all": all of these (and, if given, another project's inputs).  One kind at a time matters: a decoy that already knows the whole schema
    can hide what a decoy knowing a part of it would show.  Outcomes are ignored: only what the generator may have kept in module-level or class-level state
    matters. -> number of decoy generations that ran to completion."""
    import warnings
    done = 0
    jobs = []
    if kind in ("same", "all"):
        jobs.append(("same_inputs", sdl, queries))
    if other is not None and kind == "all":
        jobs.append(("other_inputs", other[0], other[1]))
    for label, thin in (("part_of_the_schema_same_names", False), ("same_type_names_fewer_fields", True), ("same_type_names_leaf_fields_only", "leaves")):
        if kind == "all" or kind == (thin if isinstance(thin, str) else ("thin" if thin else "part")):
            smaller = reduced_sdl(sdl, thin=thin)
            if smaller is not None:
                jobs.append((label, smaller, "query VfDecoy { __typename }"))
    for name, sdl_, queries_ in jobs:
        d = root / "_decoys" / name
        d.mkdir(parents=True, exist_ok=True)
        write_case(d, sdl_, queries_, dict(config or {}))
        with warnings.catch_warnings():
            warnings.simplefilter("ignore")
            try:
                if run_cli(d, "client", dict(config or {})).ok:
                    done += 1
            except BaseException:  # noqa: BLE001
                pass
    return done


def import_package(root: Path, name: str = "graphql_client"):
    p = str(root)
    if p not in sys.path:
        sys.path.insert(0, p)
    importlib.invalidate_caches()
    for m in list(sys.modules):
        if m == name or m.startswith(name + "."):
            del sys.modules[m]
    return importlib.import_module(name)


# --------------------------------------------------------------------------- reference server transport


def decode_graphql_request(request: httpx.Request) -> Dict[str, Any]:
    ctype = request.headers.get("content-type", "")
    if ctype.startswith("multipart/form-data"):
        from requests_toolbelt.multipart.decoder import MultipartDecoder

        dec = MultipartDecoder(request.content, ctype)
        parts = {}
        for p in dec.parts:
            disp = p.headers[b"Content-Disposition"].decode()
            fields = {}
            for seg in disp.split(";")[1:]:
                k, _, v = seg.strip().partition("=")
                fields[k] = v.strip('"')
            parts[fields["name"]] = p.content
        body = json.loads(parts["operations"])
        fmap = json.loads(parts["map"])
        files = {}
        for p in dec.parts:
            disp = p.headers[b"Content-Disposition"].decode()
            fields = {}
            for seg in disp.split(";")[1:]:
                k, _, v = seg.strip().partition("=")
                fields[k] = v.strip('"')
            if fields.get("name") not in ("operations", "map"):
                files[fields.get("name")] = {"filename": fields.get("filename"), "content_type": (p.headers.get(b"Content-Type") or b"").decode(), "content": p.content}
        body["__files__"] = files
        body["__null_positions_ok__"] = True
        for idx, paths in fmap.items():
            for path in paths:
                cur = body
                segs = path.split(".")
                for s in segs[:-1]:
                    cur = cur[int(s)] if isinstance(cur, list) else cur[s]
                last = segs[-1]
                if (cur[int(last)] if isinstance(cur, list) else cur[last]) is not None:
                    body["__null_positions_ok__"] = False  # the spec wants null at every file position of `operations`
                content = (files.get(idx) or {}).get("content", b"")
                # harness-made uploads carry their own token as content: the server then "sees" that token at the file position
                marker = content.decode("utf-8") if content.startswith(b"upload-tok#") else "upload:%s" % idx
                if isinstance(cur, list):
                    cur[int(last)] = marker
                else:
                    cur[last] = marker
        body["__multipart__"] = True
        return body
    return json.loads(request.content)


class RefServer:
    """httpx.MockTransport handler backed by graphql-core on the harness-built schema."""

    def __init__(self, schema_ref):
        self.schema = schema_ref
        self.world: Optional[World] = None
        self.captured: List[Dict[str, Any]] = []
        self.raw_requests: List[httpx.Request] = []
        self.responses: List[Dict[str, Any]] = []
        self.validation_errors: List[Any] = []
        self.override_response: Optional[Callable[[Dict[str, Any]], httpx.Response]] = None
        self.drop_next = 0  # number of coming requests the peer answers by closing the connection

    def _answer(self, request: httpx.Request) -> httpx.Response:
        self.raw_requests.append(request)
        try:
            body = decode_graphql_request(request)
        except Exception as e:  # noqa: BLE001
            self.captured.append({"undecodable": repr(e), "content": request.content[:500].decode("latin-1")})
            return httpx.Response(400, json={"errors": [{"message": "undecodable request"}]})
        self.captured.append(body)
        if self.drop_next:
            # the peer read the request and then dropped the connection (a keep-alive connection that went away): what httpx reports for it
            self.drop_next -= 1
            raise httpx.RemoteProtocolError("Server disconnected without sending a response.", request=request)
        if self.override_response is not None:
            return self.override_response(body)
        resp, verrs, _ = run_query(self.schema, self.world, body.get("query"), body.get("variables"), body.get("operationName"))
        self.validation_errors.append(verrs)
        self.responses.append(resp)
        return httpx.Response(200, json=resp)

    def sync_handler(self, request: httpx.Request) -> httpx.Response:
        request.read()
        return self._answer(request)

    async def async_handler(self, request: httpx.Request) -> httpx.Response:
        await request.aread()
        return self._answer(request)


class ScriptedWS:
    """Stands in for websockets.connect inside a generated package: acks, then answers the subscribe frame with
    `events` next frames computed by the reference server, then complete."""

    def __init__(self, server: RefServer, worlds: List[World]):
        self.server = server
        self.worlds = worlds
        self.calls: List[Any] = []

    def __call__(self, *args, **kwargs):
        self.calls.append((args, kwargs))
        outer = self

        class Conn:
            def __init__(self):
                self.queue: List[str] = []
                self.closed = False

            async def send(self, m):
                msg = json.loads(m)
                if msg["type"] == "connection_init":
                    self.queue.append(json.dumps({"type": "connection_ack"}))
                elif msg["type"] == "subscribe":
                    p = msg["payload"]
                    outer.server.captured.append({"query": p.get("query"), "operationName": p.get("operationName"), "variables": p.get("variables", {}), "__ws__": True})
                    for w in outer.worlds:
                        resp, verrs, _ = run_query(outer.server.schema, w, p.get("query"), p.get("variables"), p.get("operationName"))
                        outer.server.validation_errors.append(verrs)
                        outer.server.responses.append(resp)
                        if "errors" in resp and resp.get("data") is None:
                            self.queue.append(json.dumps({"id": msg["id"], "type": "error", "payload": resp["errors"]}))
                            return
                        self.queue.append(json.dumps({"id": msg["id"], "type": "next", "payload": resp}))
                    self.queue.append(json.dumps({"id": msg["id"], "type": "complete"}))

            async def recv(self):
                if not self.queue:
                    raise RuntimeError("scripted ws: recv with empty queue")
                return self.queue.pop(0)

            def __aiter__(self):
                return self

            async def __anext__(self):
                if self.closed or not self.queue:
                    raise StopAsyncIteration
                return self.queue.pop(0)

            async def close(self, *a, **k):
                self.closed = True

        class CM:
            async def __aenter__(self_inner):
                return Conn()

            async def __aexit__(self_inner, *exc):
                return False

        return CM()


def client_class(pkg, cfg: Dict[str, Any]):
    """The generated client class; looked up in the client module when __init__ does not re-export it (NoReimports)."""
    client_name = cfg.get("client_name", "Client")
    cls = getattr(pkg, client_name, None)
    if cls is None:
        mod = importlib.import_module("%s.%s" % (pkg.__name__, cfg.get("client_file_name", "client")))
        cls = getattr(mod, client_name)
    return cls


def make_client(pkg, cfg: Dict[str, Any], server: RefServer, tracer=None):
    cls = client_class(pkg, cfg)
    is_async = cfg.get("async_client", True)
    if is_async:
        http = httpx.AsyncClient(transport=httpx.MockTransport(server.async_handler))
    else:
        http = httpx.Client(transport=httpx.MockTransport(server.sync_handler))
    kw: Dict[str, Any] = {"url": "http://ref.test/graphql", "http_client": http}
    if tracer is not None:
        kw["tracer"] = tracer
    return cls(**kw), is_async


def call_method(client, is_async: bool, name: str, kwargs: Dict[str, Any]):
    """-> ("ok", value) | ("exc", exception).  Async generators (subscriptions) are drained into a list."""
    meth = getattr(client, name)
    try:
        if inspect.isasyncgenfunction(meth):
            async def drain():
                out = []
                async for item in meth(**kwargs):
                    out.append(item)
                return out
            return ("ok", asyncio.run(drain()))
        if is_async:
            return ("ok", asyncio.run(meth(**kwargs)))
        return ("ok", meth(**kwargs))
    except BaseException as e:  # noqa: BLE001
        return ("exc", e)


def find_methods(pkg, cfg: Dict[str, Any], op_names: List[str]) -> Dict[str, str]:
    """operation name -> client method name, found by observation: the method whose code carries the operation name constant."""
    cls = client_class(pkg, cfg)
    out: Dict[str, str] = {}
    for mname, fn in vars(cls).items():
        code = getattr(fn, "__code__", None)
        if code is None:
            continue
        consts = set()

        def walk(co):
            for c in co.co_consts:
                if isinstance(c, str):
                    consts.add(c)
                elif hasattr(c, "co_consts"):
                    walk(c)

        walk(code)
        for op in op_names:
            if op in consts and op not in out:
                # the operation string itself also contains the name; require it as a standalone constant
                out[op] = mname
    return out


class patched_ws:
    """Substitute the scripted websocket for ws_connect in the generated package's base-client module."""

    def __init__(self, client, server: RefServer, worlds: List[World]):
        self.mod = None
        for klass in type(client).__mro__[1:]:
            m = sys.modules.get(klass.__module__)
            if m is not None and hasattr(m, "ws_connect"):
                self.mod = m
                break
        self.fake = ScriptedWS(server, worlds)

    def __enter__(self):
        if self.mod is not None:
            self.saved = self.mod.ws_connect
            self.mod.ws_connect = self.fake
        return self.fake

    def __exit__(self, *exc):
        if self.mod is not None:
            self.mod.ws_connect = self.saved
        return False


def probe_param_map(client, is_async: bool, mname: str, server: RefServer, is_sub: bool) -> Dict[str, str]:
    """GraphQL variable name -> Python parameter name, learned by observation: call the method once with a distinct
    marker per parameter and read the variables that reach the transport."""
    sig = inspect.signature(getattr(client, mname))
    params = [p for p, v in sig.parameters.items() if v.kind is not inspect.Parameter.VAR_KEYWORD]
    markers = {p: "probe#%d" % i for i, p in enumerate(params)}
    n = len(server.captured)
    saved_world = server.world
    server.override_response = lambda body: httpx.Response(200, json={"errors": [{"message": "probe"}]})
    try:
        if is_sub:
            with patched_ws(client, server, []):
                call_method(client, is_async, mname, markers)
        else:
            call_method(client, is_async, mname, markers)
    finally:
        server.override_response = None
        server.world = saved_world
    bodies = server.captured[n:]
    del server.captured[n:]
    del server.raw_requests[n:]
    if not bodies:
        return {}
    sent = bodies[0].get("variables") or {}
    inv = {v: k for k, v in markers.items()}
    return {g: inv[val] for g, val in sent.items() if isinstance(val, str) and val in inv}


def generate_in_subprocess(root: Path, strategy: str, cfg: Dict[str, Any]) -> Dict[str, Any]:
    """Run one generation in its own fork (plugins mutate module-level AST constants of the generator in place, which is
    harmless for a CLI run and would be a manufactured history-dependence if several generations shared a process)."""

    def job(_):
        import warnings
        with warnings.catch_warnings():
            warnings.simplefilter("ignore")
            g = run_cli(root, strategy, cfg)
        return core.CaseResult("held" if g.ok else "violated", stats={}, sample={
            "ok": g.ok, "exc_type": g.exc_type, "exc": str(g.exception)[:400] if g.exception is not None else "", "exc_is_codegen": g.exc_is_codegen,
            "traceback": g.traceback[-1200:], "reported_files": g.reported_files, "package_dir": str(g.package_dir), "stdout": g.stdout[-400:]})

    res = core.run_forked([None], job, workers=1, timeout_s=170)[0]
    if res.sample is None:
        return {"ok": False, "exc_type": "HarnessFailure", "exc": res.note, "exc_is_codegen": False, "traceback": res.note, "reported_files": [], "package_dir": "", "stdout": ""}
    return res.sample
