"""C02 oracle: the document sent == the authored operation (+ reachable fragments) after undoing the two documented rewrites."""
from __future__ import annotations

from typing import Any, Dict, List, Optional, Set, Tuple

from graphql import (
    DocumentNode,
    FieldNode,
    FragmentDefinitionNode,
    FragmentSpreadNode,
    GraphQLSchema,
    InlineFragmentNode,
    Node,
    OperationDefinitionNode,
    get_named_type,
    is_abstract_type,
    parse,
    specified_rules,
    validate,
)


def to_plain(node: Any) -> Any:
    """AST -> nested plain data without locations."""
    if isinstance(node, Node):
        d = {"kind": node.kind}
        for k in node.keys:
            if k == "loc":
                continue
            d[k] = to_plain(getattr(node, k))
        return d
    if isinstance(node, (list, tuple)):
        return [to_plain(x) for x in node]
    if hasattr(node, "value") and node.__class__.__module__.startswith("graphql") and not isinstance(node, (str, int, float, bool)):
        return getattr(node, "value")  # OperationType enum etc.
    return node


def is_plain_typename(sel) -> bool:
    return (isinstance(sel, FieldNode) and sel.name.value == "__typename" and sel.alias is None and not sel.arguments and not sel.directives
            and sel.selection_set is None)


def strip_mixin(directives) -> List[Any]:
    return [d for d in (directives or ()) if d.name.value != "mixin"]


class DocCompare:
    def __init__(self, schema: GraphQLSchema):
        self.schema = schema
        self.problems: List[Tuple[str, str]] = []
        self.auto_typenames_removed = 0
        self.nodes_compared = 0

    def bad(self, clause: str, detail: str) -> None:
        if len(self.problems) < 15:
            self.problems.append((clause, detail))

    def cmp_directives(self, a, s, where: str, authored_may_have_mixin: bool) -> None:
        al = strip_mixin(a) if authored_may_have_mixin else list(a or ())
        sl = list(s or ())
        if to_plain(al) != to_plain(sl):
            self.bad("directives", "%s: authored directives %r, sent %r" % (where, [d.name.value for d in al], [d.name.value for d in sl]))

    def cmp_selset(self, a, s, parent_type, where: str) -> None:
        if a is None or s is None:
            if a is not s:
                self.bad("selection-set", "%s: selection set present on one side only" % where)
            return
        asel = list(a.selections)
        ssel = list(s.selections)
        if ssel and is_plain_typename(ssel[0]) and not (asel and is_plain_typename(asel[0])) and len(ssel) == len(asel) + 1:
            if parent_type is not None and is_abstract_type(parent_type):
                ssel = ssel[1:]
                self.auto_typenames_removed += 1
            else:
                self.bad("auto-typename", "%s: __typename inserted into a selection on non-abstract type %s" % (where, getattr(parent_type, "name", None)))
                ssel = ssel[1:]
        if len(asel) != len(ssel):
            self.bad("selection-count", "%s: %d selections authored, %d sent" % (where, len(asel), len(ssel)))
            return
        for x, y in zip(asel, ssel):
            self.nodes_compared += 1
            if type(x) is not type(y):
                self.bad("selection-kind", "%s: %s vs %s" % (where, x.kind, y.kind))
                continue
            if isinstance(x, FieldNode):
                w = "%s.%s" % (where, x.alias.value if x.alias else x.name.value)
                if x.name.value != y.name.value:
                    self.bad("field-name", "%s: %s vs %s" % (w, x.name.value, y.name.value))
                    continue
                if to_plain(x.alias) != to_plain(y.alias):
                    self.bad("alias", "%s: alias %r vs %r" % (w, to_plain(x.alias), to_plain(y.alias)))
                if to_plain(x.arguments) != to_plain(y.arguments):
                    self.bad("arguments", "%s: arguments %r vs %r" % (w, to_plain(x.arguments), to_plain(y.arguments)))
                self.cmp_directives(x.directives, y.directives, w, True)
                ftype = None
                if parent_type is not None and hasattr(parent_type, "fields") and x.name.value in parent_type.fields:
                    ftype = get_named_type(parent_type.fields[x.name.value].type)
                self.cmp_selset(x.selection_set, y.selection_set, ftype, w)
            elif isinstance(x, InlineFragmentNode):
                w = "%s...on(%s)" % (where, x.type_condition.name.value if x.type_condition else "")
                if to_plain(x.type_condition) != to_plain(y.type_condition):
                    self.bad("type-condition", w)
                self.cmp_directives(x.directives, y.directives, w, False)
                t = self.schema.type_map.get(x.type_condition.name.value) if x.type_condition else parent_type
                self.cmp_selset(x.selection_set, y.selection_set, t, w)
            elif isinstance(x, FragmentSpreadNode):
                if x.name.value != y.name.value:
                    self.bad("spread-name", "%s: ...%s vs ...%s" % (where, x.name.value, y.name.value))
                self.cmp_directives(x.directives, y.directives, where + "..." + x.name.value, False)

    def root_type(self, op: OperationDefinitionNode):
        return {"query": self.schema.query_type, "mutation": self.schema.mutation_type, "subscription": self.schema.subscription_type}[op.operation.value]


def reachable_fragments(op: OperationDefinitionNode, frags: Dict[str, FragmentDefinitionNode]) -> Set[str]:
    seen: Set[str] = set()

    def visit(selset):
        for sel in selset.selections:
            if isinstance(sel, FragmentSpreadNode):
                n = sel.name.value
                if n not in seen and n in frags:
                    seen.add(n)
                    visit(frags[n].selection_set)
            elif getattr(sel, "selection_set", None):
                visit(sel.selection_set)

    visit(op.selection_set)
    return seen


def check_sent_document(schema: GraphQLSchema, authored: DocumentNode, op_name: str, sent_query: Any, sent_operation_name: Any):
    """-> (problems [(clause, detail)], stats)"""
    cmpr = DocCompare(schema)
    stats = {"auto_typenames_removed": 0, "nodes_compared": 0, "fragments_compared": 0}
    if not isinstance(sent_query, str):
        return [("query-string", "query is %r" % type(sent_query).__name__)], stats
    try:
        sent = parse(sent_query)
    except Exception as e:  # noqa: BLE001
        return [("sent-parses", "sent query does not parse: %s" % str(e)[:300])], stats
    ops = [d for d in sent.definitions if isinstance(d, OperationDefinitionNode)]
    if len(ops) != 1:
        return [("single-operation", "%d operations in the sent document" % len(ops))], stats
    sop = ops[0]
    if sop.name is None or sop.name.value != op_name:
        cmpr.bad("operation-name", "sent operation is named %r, authored %r" % (sop.name.value if sop.name else None, op_name))
    if sent_operation_name != op_name:
        cmpr.bad("operationName", "operationName %r, authored operation %r" % (sent_operation_name, op_name))
    errs = validate(schema, sent, specified_rules)
    if errs:
        cmpr.bad("sent-valid", "sent document invalid against the user's schema: %s" % "; ".join(e.message for e in errs)[:500])
    a_ops = {d.name.value: d for d in authored.definitions if isinstance(d, OperationDefinitionNode) and d.name}
    a_frags = {d.name.value: d for d in authored.definitions if isinstance(d, FragmentDefinitionNode)}
    aop = a_ops[op_name]
    if aop.operation != sop.operation:
        cmpr.bad("operation-type", "%s vs %s" % (aop.operation, sop.operation))
    if to_plain(aop.variable_definitions) != to_plain(sop.variable_definitions):
        cmpr.bad("variable-definitions", "authored %r sent %r" % (to_plain(aop.variable_definitions), to_plain(sop.variable_definitions)))
    cmpr.cmp_directives(aop.directives, sop.directives, op_name, False)
    cmpr.cmp_selset(aop.selection_set, sop.selection_set, cmpr.root_type(aop), op_name)
    s_frags = {d.name.value: d for d in sent.definitions if isinstance(d, FragmentDefinitionNode)}
    n_frag_defs = len([d for d in sent.definitions if isinstance(d, FragmentDefinitionNode)])
    if n_frag_defs != len(s_frags):
        cmpr.bad("fragment-duplicated", "a fragment definition is sent twice")
    want = reachable_fragments(aop, a_frags)
    if set(s_frags) != want:
        cmpr.bad("fragment-closure", "fragments sent %r, reachable from the authored operation %r" % (sorted(s_frags), sorted(want)))
    for name in sorted(want & set(s_frags)):
        af, sf = a_frags[name], s_frags[name]
        stats["fragments_compared"] += 1
        if to_plain(af.type_condition) != to_plain(sf.type_condition):
            cmpr.bad("fragment-type-condition", name)
        cmpr.cmp_directives(af.directives, sf.directives, "fragment " + name, True)
        cmpr.cmp_selset(af.selection_set, sf.selection_set, schema.type_map.get(af.type_condition.name.value), "fragment " + name)
    stats["auto_typenames_removed"] = cmpr.auto_typenames_removed
    stats["nodes_compared"] = cmpr.nodes_compared
    return cmpr.problems, stats
