#!/bin/bash
# Offline setup: contracts library beside the repository's interpreter (no index access).
set -e
here="$(cd "$(dirname "$0")" && pwd)"
mkdir -p "$here/.deps"
if [ ! -d "$here/.deps/icontract" ]; then
  PIP_NO_INDEX=1 /venv/bin/pip install -q --no-index --find-links /opt/veriftools/wheels --target "$here/.deps" --no-deps icontract >/dev/null 2>&1 || \
    echo "setup: icontract not installed (checks fall back to plain postcondition wrappers)"
fi
/venv/bin/python -c "import graphql, pydantic, httpx, websockets, requests_toolbelt" 
echo "setup ok"
