#!/bin/bash
# usage: tools/run_all.sh quick|thorough [seed]   - runs every registered check in sequence, prints one summary line each
tier="${1:-quick}"; export VERIF_SEED="${2:-0}"
cd "$(dirname "$0")/.."
./setup.sh >/dev/null 2>&1
rc_all=0
for p in C01 C02 C03 C04 C05 C06 C07 C08 C09 C10 C11 C12 C13 C14 C15 C16 C17 C18 C19; do
  out="$(./check $p $tier 2>&1)"; rc=$?
  echo "$out" | grep -E "^(VIOLATION|INCONCLUSIVE|$p )" | cut -c1-300
  echo "$out" | grep -A3 "^VIOLATION" | grep -v "^VIOLATION" | cut -c1-400 | head -12
  [ $rc -ne 0 ] && rc_all=1
done
exit $rc_all
