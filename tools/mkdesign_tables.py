#!/venv/bin/python
"""Regenerates the generated blocks of DESIGN.md (repairs, known findings, seeded-change matrix) from known_findings.json and seeded/*/meta.json."""
import glob, json, os, re, subprocess

HERE = os.path.dirname(os.path.dirname(os.path.abspath(__file__)))
kf = json.load(open(os.path.join(HERE, "known_findings.json")))
subjects = dict(l.split(" ", 1) for l in subprocess.run(["git", "-C", "/repo", "log", "--format=%h %s", "f8842e4..HEAD"], capture_output=True, text=True).stdout.strip().splitlines())

fixed = ["| commit | property | what failed before the repair |", "|---|---|---|"]
for line in kf["fixed"]:
    m = re.match(r"fixed: property=(\w+) (\w+) (.*)", line)
    fixed.append("| %s | %s | %s |" % (m.group(2), m.group(1), m.group(3).replace("|", "/")))
listed = {l.split()[2] for l in kf["fixed"]}
missing = [h for h in subjects if h not in listed]
known = ["| key | property | what fails |", "|---|---|---|"]
for k in kf["known"]:
    known.append("| %s | %s | %s |" % (k["key"], k["property"], k["what"].replace("|", "/")))
seeded = ["| id | breaks | caught by | what it needs to manifest |", "|---|---|---|---|"]
for d in sorted(glob.glob(os.path.join(HERE, "seeded", "[CFGHSTUVWX]*"))):
    mp = os.path.join(d, "meta.json")
    if not os.path.exists(mp):
        continue
    m = json.load(open(mp))
    caught = m.get("caught_by")
    if caught is None:
        by = "(not evaluated yet)"
    elif not caught:
        by = "MISSED"
    else:
        clauses = []
        for k, v in (m.get("checks") or {}).items():
            if v.get("exit") == 1:
                clauses += [c.replace("clause=", "").split(" mech=")[0] for c in v.get("clauses", [])[:2]]
        by = ", ".join(caught) + (": " + ", ".join(sorted(set(clauses))[:3]) if clauses else "")
    conf = m.get("confirmed_by_me") or {}
    ok = conf.get("patch_applies") and conf.get("demo_on_clean_tree_rc") == 0 and conf.get("demo_with_change_rc") not in (0, None) and conf.get("baseline_suite_unchanged")
    needs = (m.get("needs") or m.get("needs_to_manifest") or "")
    seeded.append("| %s | %s | %s%s | %s |" % (os.path.basename(d), m["property"], by, "" if ok or caught is None else " (NOT CONFIRMED: see meta.json)", str(needs)[:200].replace("\n", " ").replace("|", "/")))


def put(text, name, lines):
    begin, end = "<!-- BEGIN %s -->" % name, "<!-- END %s -->" % name
    block = begin + "\n" + "\n".join(lines) + "\n" + end
    if begin in text:
        return re.sub(re.escape(begin) + r".*?" + re.escape(end), lambda _: block, text, flags=re.S)
    raise SystemExit("marker %s missing in DESIGN.md" % name)


p = os.path.join(HERE, "DESIGN.md")
t = open(p).read()
t = put(t, "FIXED", fixed)
t = put(t, "KNOWN", known)
t = put(t, "SEEDED", seeded)
open(p, "w").write(t)
print("fixed", len(fixed) - 2, "known", len(known) - 2, "seeded", len(seeded) - 2, "repo commits not listed:", missing)
