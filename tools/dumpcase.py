#!/venv/bin/python
"""Regenerate the package of a _clientworld replay file into a directory for inspection: dumpcase.py replay.json outdir"""
import json, sys, os, warnings
sys.path.insert(0, "/verif")
from pathlib import Path
from vf import core
core.use_repo()
from vf.genpkg import write_case, run_cli
d = json.load(open(sys.argv[1]))
case = d["case"]
out = Path(sys.argv[2]); out.mkdir(parents=True, exist_ok=True)
cfg = {k: v for k, v in case["cfg"].items() if not k.startswith("_")}
cfg = write_case(out, case["_sdl"], case["_queries"], cfg, extra_files=case.get("extra_files"))
with warnings.catch_warnings():
    warnings.simplefilter("ignore")
    g = run_cli(out, case.get("strategy", "client"), cfg)
print("ok" if g.ok else "FAILED %s %s" % (g.exc_type, g.exception))
print(g.traceback[-1500:])
