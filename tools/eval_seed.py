#!/venv/bin/python
"""Evaluate seeded breaking changes against the checks.

usage: eval_seed.py <seed dir with patch.diff demo.py meta.json> <PROPERTY> [--tier quick|thorough] [--checks C01,C02] [--skip-suite]
Steps: scratch copy of /repo (outside /repo and /verif) + patch; demo on clean /repo must exit 0 and on the copy must exit 1; the repository's
own suite in the copy must keep every baseline-stable test passing; then the property's check runs with VERIF_REPO=<copy> and must print VIOLATION.
Prints one JSON line with the outcome and removes the copy.
"""
import json
import os
import shutil
import subprocess
import sys
import tempfile
import xml.etree.ElementTree as ET


HERE = os.path.dirname(os.path.dirname(os.path.abspath(__file__)))


def sh(cmd, cwd=None, env=None, timeout=3600):
    p = subprocess.run(cmd, cwd=cwd, env=env, capture_output=True, text=True, timeout=timeout)
    return p.returncode, p.stdout + p.stderr


def suite_ok(copy):
    base = json.load(open("/root/.vp/BASELINE.json"))
    env = dict(os.environ)
    env.pop("ARIADNE_CODEGEN_VERIF", None)
    env.pop("VERIF_REPO", None)
    with tempfile.TemporaryDirectory() as td:
        xml = os.path.join(td, "j.xml")
        sh(["/venv/bin/python", "-m", "pytest", "-q", "-p", "no:cacheprovider", "--timeout=900", "--continue-on-collection-errors", "--junitxml=" + xml, "-n", "8"], cwd=copy, env=env)
        passed = set()
        for tc in ET.parse(xml).getroot().iter("testcase"):
            if not any(c.tag in ("failure", "error", "skipped") for c in tc):
                passed.add("%s::%s" % (tc.get("classname"), tc.get("name")))
    # four baseline test ids embed the absolute path /repo/...: they cannot pass in a copy living elsewhere
    missing = [t for t in base["stable_pass"] if t not in passed and "/repo/" not in t]
    return missing


def main():
    seed_dir = os.path.abspath(sys.argv[1])
    prop = sys.argv[2]
    tier = "quick"
    checks = [prop]
    skip_suite = "--skip-suite" in sys.argv
    if "--tier" in sys.argv:
        tier = sys.argv[sys.argv.index("--tier") + 1]
    if "--checks" in sys.argv:
        checks = sys.argv[sys.argv.index("--checks") + 1].split(",")
    out = {"seed": seed_dir, "property": prop, "tier": tier}
    copy = tempfile.mkdtemp(prefix="vf-seed-")
    try:
        sh(["rsync", "-a", "--exclude", ".git", "/repo/", copy + "/"])
        rc, log = sh(["patch", "-p1", "-s", "-i", os.path.join(seed_dir, "patch.diff")], cwd=copy)
        out["patch_applies"] = rc == 0
        if rc != 0:
            out["patch_log"] = log[-400:]
            print(json.dumps(out))
            return
        rc0, _ = sh(["/venv/bin/python", os.path.join(seed_dir, "demo.py"), "/repo"], cwd=tempfile.gettempdir(), timeout=900)
        rc1, dlog = sh(["/venv/bin/python", os.path.join(seed_dir, "demo.py"), copy], cwd=tempfile.gettempdir(), timeout=900)
        out["demo_clean_rc"] = rc0
        out["demo_patched_rc"] = rc1
        out["demo_patched_tail"] = dlog[-300:]
        if not skip_suite:
            missing = suite_ok(copy)
            out["suite_missing"] = missing[:5]
            out["suite_ok"] = not missing
        env = dict(os.environ)
        env["VERIF_REPO"] = copy
        caught = {}
        for c in checks:
            rc, log = sh([os.path.join(HERE, "check"), c, tier], cwd=HERE, env=env, timeout=7200)
            viol = [l for l in log.splitlines() if l.startswith("VIOLATION")]
            clauses = sorted({l.strip() for l in log.splitlines() if l.strip().startswith("clause=")})
            caught[c] = {"rc": rc, "violations": len(viol), "clauses": clauses[:6], "summary": [l for l in log.splitlines() if l.startswith(c + " ")][-1:]}
        out["checks"] = caught
        out["caught"] = any(v["rc"] == 1 and v["violations"] for v in caught.values())
    finally:
        shutil.rmtree(copy, ignore_errors=True)
    print(json.dumps(out))


if __name__ == "__main__":
    main()
