#!/venv/bin/python
"""Run the repository's pinned test command (guard off) and compare with /root/.vp/BASELINE.json.
usage: baseline_check.py [repo_dir]   (exit 0 iff every stable_pass test passes)"""
import json, os, subprocess, sys, tempfile, xml.etree.ElementTree as ET

repo = sys.argv[1] if len(sys.argv) > 1 else "/repo"
base = json.load(open("/root/.vp/BASELINE.json"))
env = dict(os.environ)
env.pop("ARIADNE_CODEGEN_VERIF", None)
with tempfile.TemporaryDirectory() as td:
    xml = os.path.join(td, "junit.xml")
    cmd = ["/venv/bin/python", "-m", "pytest", "-ra", "-q", "-p", "no:cacheprovider", "--timeout=900",
           "--continue-on-collection-errors", "--junitxml=" + xml, "-x" if False else "-q", "-n", "8"]
    p = subprocess.run(cmd, cwd=repo, env=env, capture_output=True, text=True)
    root = ET.parse(xml).getroot()
    passed = set()
    for tc in root.iter("testcase"):
        if not any(c.tag in ("failure", "error", "skipped") for c in tc):
            passed.add("%s::%s" % (tc.get("classname"), tc.get("name")))
missing = [t for t in base["stable_pass"] if t not in passed]
print("stable_pass=%d passed_now=%d missing=%d" % (len(base["stable_pass"]), len(passed), len(missing)))
for t in missing[:30]:
    print("  MISSING", t)
sys.exit(1 if missing else 0)
