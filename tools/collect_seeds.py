#!/venv/bin/python
"""Copies confirmed seeded changes from /tmp/seed/CNN/{a,b} into /verif/seeded/CNN-{a,b}/ and (re)writes seeded/README.md with the catch matrix.
A change is kept only if: the patch applies, the demonstration passes on the clean tree and fails with the change, and the repository's suite keeps its baseline."""
import json, os, shutil, sys, glob

SRC = "/tmp/seed"
DST = "/verif/seeded"
rows = []
for d in sorted(glob.glob(SRC + "/C*/[ab]")):
    ev = os.path.join(d, "eval.json")
    if not os.path.exists(ev):
        continue
    e = json.loads(open(ev).read().strip().splitlines()[-1])
    prop = e["property"]
    name = "%s-%s" % (prop, os.path.basename(d))
    ok = e.get("patch_applies") and e.get("demo_clean_rc") == 0 and e.get("demo_patched_rc") not in (0, None) and e.get("suite_ok", False)
    if not ok:
        rows.append((name, prop, "NOT KEPT (applies=%s demo=%s/%s suite_ok=%s)" % (e.get("patch_applies"), e.get("demo_clean_rc"), e.get("demo_patched_rc"), e.get("suite_ok")), "", ""))
        continue
    out = os.path.join(DST, name)
    os.makedirs(out, exist_ok=True)
    for f in ("patch.diff", "demo.py"):
        shutil.copy(os.path.join(d, f), os.path.join(out, f))
    meta = json.load(open(os.path.join(d, "meta.json")))
    meta_out = {"property": prop, "what_it_breaks": meta.get("what_it_breaks"), "needs_to_manifest": meta.get("needs_to_manifest"), "files_touched": meta.get("files_touched"),
                "author_verification": meta.get("how_verified"),
                "confirmed_by_me": {"demo_on_clean_tree_rc": e["demo_clean_rc"], "demo_with_change_rc": e["demo_patched_rc"], "baseline_suite_unchanged": e["suite_ok"],
                                    "ran": "tools/eval_seed.py %s %s (scratch copy of /repo + patch; demo on /repo and on the copy; pytest in the copy; ./check with VERIF_REPO=<copy>)" % (d, prop)},
                "checks": {k: {"exit": v["rc"], "violation_lines": v["violations"], "clauses": v["clauses"], "summary": v["summary"]} for k, v in e.get("checks", {}).items()},
                "caught": bool(e.get("caught")), "tier": e.get("tier")}
    json.dump(meta_out, open(os.path.join(out, "meta.json"), "w"), indent=1)
    caught_by = ", ".join("%s (%s)" % (k, "; ".join(c.replace("clause=", "").split(" mech=")[0] for c in v["clauses"][:3])) for k, v in e.get("checks", {}).items() if v["rc"] == 1)
    rows.append((name, prop, (meta.get("what_it_breaks") or "")[:160].replace("\n", " ").replace("|", "/"), (meta.get("needs_to_manifest") or "")[:140].replace("\n", " ").replace("|", "/"),
                 ("caught by " + caught_by + " [%s]" % e.get("tier")) if e.get("caught") else "MISSED"))
with open(os.path.join(DST, "README.md"), "w") as f:
    f.write("# Seeded breaking changes\n\nEach directory holds `patch.diff` (against /repo HEAD at the time), the author's `demo.py` and `meta.json`.\n"
            "They were written by fresh sub-agents that saw only the property text and a scratch worktree; none is ever committed to /repo.\n"
            "To run a check against one: `tools/with_patch.sh seeded/<id>/patch.diff ./check <PROP> quick`.\n\n| id | property | what it breaks | needs | result |\n|---|---|---|---|---|\n")
    for r in rows:
        f.write("| %s | %s | %s | %s | %s |\n" % r)
print("kept", sum(1 for r in rows if not r[2].startswith("NOT KEPT")), "of", len(rows))
