#!/venv/bin/python
"""Regenerates /verif/MANIFEST.json from the table below (single source of truth)."""
import json
import os
import subprocess

HERE = os.path.dirname(os.path.dirname(os.path.abspath(__file__)))

GEN_NOTE = ("Trusted: graphql-core as the model of a spec-conformant server (parser/validator are shared with the repository, executor/coercion are not); "
            "httpx.MockTransport; pydantic for the meaning of annotations. Held means held on the generated cases; the evidence lists the generator features covered.")

CHECKS = {
    "C01": dict(
        category="exploration",
        technique="runtime monitoring: real generation + import in a fresh fork, generated methods driven against a graphql-core reference server under scripted worlds; parallel-walk oracle over response vs returned model",
        text="For seeded schemas/operations/configurations the real CLI generates a package which is imported and called against a reference executor whose "
             "resolvers script every runtime type, nulls and list lengths with unique-token values. The returned object is walked in parallel with the response "
             "(key exposure, value equality, enum members, __typename literal membership at abstract positions) and dumped back by alias for a round-trip comparison. "
             "Besides the seeded generators (incl. fragments using variables, server-defined directives, type extensions, merged selections, type conditions on the "
             "position's own abstract type) the repository's example projects and a dense sample of fragment-usage graphs over a fixed schema are run.",
        note=GEN_NOTE, design="4/C01"),
    "C02": dict(
        category="exploration",
        technique="runtime monitoring: transport-boundary capture of the sent document; AST-equality oracle against the authored document after undoing the two documented rewrites; full-rule validation with graphql-core",
        text="The query text and operationName captured at the transport for every generated method are parsed, validated against the harness-built schema with "
             "all specified rules and compared node by node (names, aliases, argument value ASTs, directives, variable definitions, fragment closure) with what the user wrote; "
             "fragment-usage graphs (which fragment is a base, unpacked, or reached only through another differs per operation) are sampled densely in both definition orders.",
        note=GEN_NOTE, design="4/C02"),
    "C03": dict(
        category="exploration",
        technique="runtime monitoring: variables JSON captured at the transport compared with the abstract argument value; graphql-core coercion as acceptance oracle; resolver-received arguments compared with a reference execution of the authored operation",
        text="For every generated operation with variables, 5-10 argument scripts (minimal, everything supplied, random with explicit None/omitted/unset nested fields; input "
             "models built by alias and by Python field name) are passed to the real method. The parameter for each variable is learned by a probe call. The captured "
             "payload must equal the abstract value exactly (omitted absent, None as null), be accepted by spec coercion, and deliver the same resolver arguments as "
             "the authored operation executed directly; omitting a required argument (non-null and undefaulted; the generator also writes defaults on non-null variables) must raise TypeError before any request. A sixth of the cases rename a custom "
             "scalar to Upload: calls carrying files must travel as multipart with null at every file position, one part per file with its own name, type and bytes "
             "(the reference server decodes the body and puts the file's token back before executing); the traced OpenTelemetry client is driven where the rotation says so.",
        note=GEN_NOTE, design="4/C03"),
    "C04": dict(
        category="exploration",
        technique="runtime monitoring: real CLI run per case in a fresh fork, outcome classifier (success / documented refusal / other), import of every emitted module, pydantic completeness, __all__ and reported-files comparison",
        text="Generation is run through the real CLI on seeded valid inputs across the configuration rotation; any failure that is not a documented refusal whose cause is "
             "present in the input is a violation; every emitted module is parsed and imported, every model must be complete, __all__ must equal what __init__ binds "
             "and the reported file list must equal the files on disk; every files_to_include entry (non-Python files included) must arrive under its own name with its "
             "own bytes; a second generation after editing an included file must refresh the copy. The three pruning flag combinations, custom module names and "
             "custom operations rotate over the cases; six sets of user-chosen names (package, path, client, modules: letters next to digits, capitals, names ending in p/y, a package named like one of its "
             "modules), a hand-written base client whose class sits inside a block, and all comment modes rotate as well. The harness's own corpus of order-dependent shapes is run in "
             "written, reversed and shuffled definition order; a quarter of the cases are preceded by decoy generations in the same interpreter.",
        note=GEN_NOTE, design="4/C04"),
    "C05": dict(
        category="exploration",
        technique="runtime monitoring: single-point corruption of conformant responses fed to the real result models (must raise ValidationError) + evaluated-annotation vs independent GraphQL-type image",
        text="Every conformant response from the reference server is corrupted at one position in each of the ways the statement lists and validated by the real generated model; "
             "every __typename position is replaced by an unknown name, a real object type that cannot occur there (preferring types that a type condition of the document "
             "can match) and an abstract type's name; the evaluated annotation of every reached result field is compared with an independent image of its GraphQL type, "
             "and the __typename Literals of the classes behind every abstract field may admit no object type outside the position's possible types. A fifth of the "
             "cases configure custom scalars with a strict parse function.",
        note=GEN_NOTE, design="4/C05"),
    "C06": dict(
        category="exploration",
        technique="runtime monitoring: generated input models exercised with values confirmed by graphql-core coerce_input_value; required-field removal; default read-back vs GraphQLInputField.default_value; resolver-observed defaults via carrier queries",
        text="For every input class of seeded schemas: values accepted by the schema's own coercion are built by GraphQL names and by Python names and dumped back; each "
             "required field is removed once (must raise ValidationError); every schema default is read back from an instance created without the field and observed "
             "at the reference resolver through a carrier query.",
        note=GEN_NOTE, design="4/C06"),
    "C07": dict(
        category="exploration",
        technique="runtime monitoring: call log of instrumented parse/serialize functions shipped via files_to_include; exactly-once multiset oracle over unique-token occurrences in responses and arguments; wire/attribute value comparison",
        text="Custom scalars of seeded schemas are configured in six variants (custom class with parse+serialize, str+parse, str+serialize, pydantic-native datetime via "
             "dotted path, deprecated import key, unconfigured). The call log of the instrumented functions must equal, as a multiset, the non-null occurrences of the "
             "scalar in the response (parse) and in the caller's arguments (serialize); attributes must be parse(raw) of their own token and wire values serialize(value). "
             "Tokens include falsy-but-present values; a quarter of the cases rename one scalar to Upload so that the other scalars travel on the multipart route; the "
             "traced OpenTelemetry client is driven where the rotation says so. Every second case adds probe operations that pass every custom scalar as a required "
             "variable and inside an input object on the HTTP and websocket routes; a fifth enables the operation builder. The two listed serialize findings are matched "
             "against an exact model of their behaviour. Where the builder is on, a root field taking every configured scalar as required and as optional argument is called through "
             "the generated builder method with truthy, falsy, optional and None arguments (call log, sent values and the document's argument list compared). Same-type cases "
             "alternate between serialize-only, parse-only and one shared class that is called like one of the scalars; a third of the cases are preceded by decoy generations "
             "in the same interpreter.",
        note=GEN_NOTE, design="4/C07"),
    "C08": dict(
        category="exploration",
        technique="runtime monitoring: isinstance/validate checks on objects returned by the real client at spread sites listed by an independent document walker; import outcome under permuted/split definition orders; __bases__ inspection for @mixin",
        text="For fragment-heavy seeded inputs an independent walker lists every direct spread of an inline-free fragment on its own type; objects returned at those "
             "positions must be instances of fragments.<Fragment>, which must validate the same sub-payload and exist whatever else uses the fragment; 3-6 permutations "
             "and file splits of the definitions must all generate and import; every @mixin class must be a base of exactly the classes generated for its node, and the "
             "class validating a path reached through a named or conditional fragment must still inherit the mixin its field names.",
        note=GEN_NOTE, design="4/C08"),
    "C09": dict(
        category="exploration",
        technique="runtime monitoring: differential observation of four generated packages (flag combinations) against an independent closure; per-class source-segment comparison; identical-call request/return comparison; icontract postcondition on the real _get_dependencies_of_type evaluated in situ",
        text="Four packages per seeded case (include_all_inputs x include_all_enums) are generated and imported; the class sets of input_types.py / enums.py must equal "
             "an independently computed closure (inputs through variables transitively; enums through variables, retained inputs, result fields at positions whose type "
             "conditions can apply, fragments), each retained "
             "class must be textually identical to its unpruned counterpart, and identical calls must send identical requests and return identical values in all four. In half of the cases every pruned package is written over an "
             "older generation made with the opposite flags.",
        note=GEN_NOTE, design="4/C09"),
    "C10": dict(
        category="exploration",
        technique="runtime monitoring: differential observation of real generator subprocesses under varied PYTHONHASHSEED, file creation orders/mtimes, pre-existing target and process history (several generations in one interpreter); sha256 comparison of every produced file",
        text="The same inputs are generated by real `python -m ariadne_codegen` subprocesses under 5 (thorough: 13) hash seeds, as directories whose files are created in three "
             "shuffled orders (a seeded shuffle of Path.glob / os.scandir / os.listdir stands for another file system), and over an existing generation; every produced file "
             "must be byte-identical within each factor group. Both strategies, the plugin sets that collect names in sets, custom scalar types imported from the target "
             "package / a module in the working directory / relatively, and overlapping-interface inputs are covered. For three quarters of the cases (thorough: all) one more "
             "interpreter first generates decoy projects (other inputs under the same relative file names and configuration; the same inputs under a minimal configuration) and then the "
             "project itself twice from one loaded configuration object, as files and as directories: both trees must equal the ones a fresh interpreter produced.",
        note="Trusted: sha256. Hash seeds and creation orders are sampled, not enumerated; inputs are biased to the set-iteration sites named in the anchors.",
        design="4/C10"),
    "C11": dict(
        category="exploration",
        technique="runtime monitoring: transport-boundary capture + reference multipart/JSON oracle; schedule stress (asyncio.gather with seeded awaits, 8 threads at 1us switch interval, sys.monitoring LINE yield injection) with per-call unique ids",
        text="Seeded variable trees (dicts, lists, models, UNSET, None, Uploads at any depth, shared Uploads, enum/datetime leaves) x kwargs are sent through all "
             "six bundled client variants; every captured request is decoded and compared with an expectation the generator computed in parallel, and the "
             "variants are compared pairwise. 32 concurrent calls on one client are run under asyncio and thread schedules (with yield injection); each "
             "request must equal the one the same call sends in isolation and each response must reach its caller. Observed interleavings are counted. Call sequences "
             "on one client share the caller's kwargs objects (some naming a Content-Type), retry with the same Upload from wherever the stream was left, and start from sniffed streams. "
             "Caller headers come in every form httpx documents (dict, pairs, httpx.Headers, read-only mapping, lower-case names).",
        note="Trusted: httpx.MockTransport, requests_toolbelt multipart decoder. Schedules are sampled, not enumerated.",
        design="4/C11",
    ),
    "C12": dict(
        category="fault_enumeration",
        technique="runtime monitoring: decision-function oracle over the real get_data of the 4 bundled clients (7 variants) on the full status x body-class product, plus generated methods through MockTransport",
        text="Every (status code, body class) combination is fed to the real get_data of all bundled base clients and to a generated method; "
             "the outcome (exception type + carried attributes, or returned data) is compared with a decision function transcribed from the statement. "
             "The finite factors are enumerated completely; body contents inside a class are sampled (error entries include members of unexpected shape: string / list extensions, string locations).",
        note="Trusted: httpx.Response as model of a server response; json module. Body classes are finite representatives of infinite sets.",
        design="4/C12",
    ),
    "C13": dict(
        category="fault_enumeration",
        technique="runtime monitoring: trace checker (reference protocol state machine) over frames sent/yielded by the real execute_ws on every scripted frame sequence up to the bound; real websockets server on loopback",
        text="All server frame sequences up to length 4 (quick) / 5 (thorough) over the 10 frame kinds of the statement are fed through a scripted "
             "connection to the real execute_ws of the plain and OpenTelemetry clients (tracer absent/recording); sends, yields and terminal outcome "
             "are compared with a reference state machine (extra frame classes: JSON non-objects, falsy data, error frames with an empty or absent payload, partial results carrying errors or extensions next to data). The handshake is also run against a real websockets server on 127.0.0.1.",
        note="Trusted: the scripted connection mirrors websockets' contract; a second connection_ack is treated as outside the statement.",
        design="4/C13",
    ),
    "C14": dict(
        category="exploration",
        technique="runtime monitoring: builder expressions produced by reflection over the generated builder modules; captured document validated and executed by graphql-core (resolvers record received arguments), shape compared with the expression, and each expression rebuilt after unrelated operations in the same process (history-freedom as a pair of executions)",
        text="For seeded schemas generated with enable_custom_operations, 10-24 expression trees per schema (several top-level fields, sub-fields to depth 3, aliases, .on() "
             "for union/interface members, arguments incl. explicit None) are built from the generated field objects; each captured document must validate against the "
             "schema (argument values include falsy ones; a returned type or union member without builder class is reported; operations that fail while being built are part of the history), have the expression's shape and GraphQL names, declare every variable with exactly the type of the argument it is bound to, deliver the caller's argument values to the reference resolvers, omit None arguments, and be "
             "identical when rebuilt after the other expressions were built and sent.",
        note=GEN_NOTE + " The three listed defect mechanisms are switched on one at a time in separate cases so that the clean region is explored densely.",
        design="4/C14"),
    "C15": dict(
        category="exploration",
        technique="runtime monitoring: differential observation of packages generated with plugin lists vs unplugged (requests in canonical print, acceptance, returned values, evaluated type hints, operation constants, bytes), with identity and marker plugins shipped by the harness to observe hook application order",
        text="For seeded inputs the unplugged package and packages for subsets/orders of the four bundled plugins, an identity plugin and two marker plugins are generated "
             "(one fork per generation), loaded and driven with identical calls against the reference server. Requests and acceptance must be the same; ShorterResults must "
             "return exactly the single top-level field (unchanged when several); ExtractOperations constants must be the operation strings; ClientForwardRefs must keep every "
             "evaluated annotation; NoReimports must only empty __init__; the identity plugin must change no byte; markers must appear in configuration order on every hook. ExtractOperations is also run with its own "
             "module-name option; the harness's corpus of order-dependent shapes (root-type fragments shared by several operations, fragments used in part) is run in every definition order.",
        note=GEN_NOTE + " Plugin lists are rotated over cases (all 15 subsets, both orders of each pair, reversed full list).",
        design="4/C15"),
    "C16": dict(
        category="exploration",
        technique="runtime monitoring: the module emitted by the real graphqlschema run is executed in a fresh fork (the .graphql/.gql file parsed back) and the resulting schema object compared with graphql-core's reading of the source, by print_schema and by a structural fact dump",
        text="Seeded schemas with descriptions, deprecations, custom/repeatable directives, specifiedBy, custom roots, schema description and defaults of every kind are run "
             "through the real `graphqlschema` strategy for all target formats and variable names; the produced schema must print identically and agree on every listed "
             "structural fact (kinds, interfaces, fields, args, defaults, descriptions, deprecations, enum values, union members, directive locations/repeatability, roots). "
             "A quarter of the cases edit the schema slightly and generate again onto the existing target (must equal a fresh generation); a seventh take the schema "
             "through an in-process introspection endpoint (everything the tool's introspection query can carry must be reproduced; what it cannot carry is one listed finding). "
             "The repository's own example schemas are fixed cases; target names with mixed-case extensions must be written in the format the extension promises.",
        note="Trusted: graphql-core build_schema / print_schema as the reference reading of SDL.",
        design="4/C16"),
    "C17": dict(
        category="fault_enumeration",
        technique="runtime monitoring with fault injection: sys.addaudithook file-system monitor + before/after tree snapshot + exception classifier around the real CLI, over an enumerated catalogue of invalid configurations / syntax errors / invalid schemas / invalid operations x pre-existing target states",
        text="Every documented configuration constraint (2-4 concrete violations each), nine syntax-error placements (single files, directories, files invalid alone but valid when glued to a neighbour, empty files), one invalid schema per graphql-core validation branch and "
             "one or more invalid operations per specified validation rule (all confirmed invalid by graphql-core in the harness first) are run through the real CLI for both "
             "strategies with the target absent / empty / holding a previous generation / holding user files. The exception must be the corresponding CodeGenException naming "
             "the item, and the audit hook must see no create/write/mkdir/remove under the target. Valid configurations (unknown keys at every level, deprecated section, literal dollar "
             "signs in headers, six sets of user-chosen names, packages named like their own modules, a base client class defined inside a block, nested package paths, mixed-case targets) must be accepted and reading settings must not mutate the configuration. Every multi-definition invalid document is also run spread over a queries directory (one definition per file, nested folders, all extensions). The listed invalid-schema finding is matched against a "
             "committed per-schema catalogue of the unchanged outcomes: any other outcome for the same schema is reported.",
        note="Trusted: audit hooks see every Python-level file-system mutation; graphql-core decides validity. The catalogue is finite and enumerated completely; it is not a proof over all invalid inputs.",
        design="4/C17"),
    "C18": dict(
        category="exploration",
        technique="runtime contracts (icontract postconditions) on the real process_name/str_to_snake_case driven exhaustively over a reduced alphabet and re-bound in situ during real generation; load/drive of packages generated from dirty name classes; colliding-pair outcome classifier per scope",
        text="A: every name over {a,b,A,B,1,_} up to length 6 (thorough 7) plus all keywords, soft keywords, public BaseModel attributes and Enum-reserved names with prefix/"
             "suffix/case variants is mapped by the real functions under postconditions (identifier, not keyword, not a pydantic attribute, deterministic, idempotent, "
             "letters and digits kept in order) for the four flag sets the generator uses. B: the contracts are re-bound into every generator module and evaluated during "
             "real generation from schemas using one dirty name class at a time; the package is loaded and driven so the wire name is observed. C: colliding pairs are "
             "placed in each scope kind: generation must fail or both names must stay usable; single names that meet a method local, keyword or attribute only after "
             "the mapping are placed next to an unrelated partner in five scopes (enum values also as input defaults): wire name kept, value delivered. The listed pair "
             "findings are keyed by scope and symptom. Pairs of variables one of which is the renamed form of a method local (query / _query) must both stay usable.",
        note="Part A is exhaustive over the stated reduced alphabet and bound only; real names use a larger alphabet (case classes are represented by a/b/A/B).",
        design="4/C18"),
    "C19": dict(
        category="exploration",
        technique="runtime monitoring: differential comparison of packages generated from one schema supplied as file / directory partitions / in-process introspection endpoint behind the real httpx.post call site (recorder logs url, headers, verify); failure-class enumeration for introspection responses",
        text="Each seeded schema is supplied as one SDL file, as 2-3 random partitions into .graphql/.graphqls/.gql files in nested directories, and through an introspection "
             "endpoint answered by graphql-core on the harness-built schema. Result modules must be textually identical, enums and client identical modulo class/import order, "
             "input models must agree on names, required-ness and defaults; the recorder checks the headers ($ENV resolved, dollar signs elsewhere literal) and the verify flag "
             "actually sent, for both strategies. 26 introspection failure classes (among them errors reported next to a complete-looking result) (statuses, non-JSON incl. invalid UTF-8, JSON scalars, malformed data) and 6 malformed "
             "urls must surface as IntrospectionError without creating the package.",
        note="Trusted: graphql-core's introspection of the reference schema stands for a conformant remote endpoint; TLS itself is not exercised (verify is observed at the call boundary).",
        design="4/C19"),
}

NOT_APPLICABLE = []


def unclaimed():
    out = list(NOT_APPLICABLE)
    listed = {x["property_id"] for x in out}
    for line in open(os.path.join(HERE, "properties.jsonl")):
        pid = json.loads(line)["id"]
        if pid not in CHECKS and pid not in listed:
            out.append({"property_id": pid, "reason": "not claimed yet: the runtime-monitoring check for it is still under construction (see DESIGN.md section 4)"})
    return out


# what rounds 10-11 added to the workloads (environment and scale), one sentence per check
ADDED = {
    "C02": " A history across interpreters (an application cached the package's bytecode, a literal is edited, the package regenerated) must send the edited document; targets holding another release's copies of the bundled files are regenerated.",
    "C03": " Argument workloads include lists of 100+ input objects and integers beyond 2^53; generation may go into a target holding another release's copies of the bundled files.",
    "C04": " Fixed scale cases (about 500 types chained through unions with the operation builder on), large documents, configurations passed with --config, and targets holding stale copies of the files to be written are part of every run.",
    "C05": " Names the tree adds to its bundled BaseModel are required leaves of every object type in some cases.",
    "C06": " Includes type extensions, deep wrapper types and keyword-named enum defaults on aliased fields.",
    "C07": " A peer that drops the connection after reading the request, integers beyond 2^53 / 2^63 and stale bundled copies in the target are part of the workload.",
    "C09": " Pruned packages are also written over an older pruned package made for other operations (post-dated files); a fixed input graph with 1000+ references is part of every run.",
    "C10": " Every second case also regenerates over output whose every file was altered and post-dated.",
    "C12": " Bodies include trees hundreds of levels deep, lists of thousands and long strings; the generated-method part generates into a target holding stale copies of the bundled files.",
    "C15": " One plugin list per case is also generated over the unplugged package of the same inputs and compared byte-wise with a fresh generation.",
    "C16": " Targets include upper-case .PY names; a tenth of the local cases generate in a separate interpreter under the C locale with UTF-8 mode off (ASCII file, non-ASCII content).",
    "C17": " The invalid-operation catalogue includes a document with more than 100 validation errors.",
    "C18": " The enumeration is extended by names of up to 257 characters (long runs of capitals, digits, underscores, many words); operation pairs that meet only after a naming plugin's hook are part of the pair cases.",
    "C19": " Partition files include dot-named directories, CRLF and BOM files; the directory is named plainly, through `..`, below a hidden ancestor and absolutely; environment values may begin with `$`; type references go up to nine wrappers.",
}


def main():
    checks = []
    for pid in sorted(CHECKS):
        c = dict(CHECKS[pid])
        c["text"] = c["text"] + ADDED.get(pid, "")
        checks.append({
            "property_id": pid,
            "quick_cmd": "./check %s quick" % pid,
            "thorough_cmd": "./check %s thorough" % pid,
            "evidence_file": "/verif/evidence/%s.json" % pid,
            "replay_cmd_template": "./check %s --replay {path}" % pid,
            "engine": "vf",
            "level_claimed": {"category": c["category"], "text": c["text"], "design_ref": "DESIGN.md section " + c["design"]},
            "level_note": c["note"],
            "technique": c["technique"],
        })
    fixes = subprocess.run(["git", "-C", "/repo", "log", "--format=%h %s", "f8842e4..HEAD"], capture_output=True, text=True).stdout.strip().splitlines()
    manifest = {
        "version": 1,
        "setup_cmd": "./setup.sh",
        "hooks": {
            "guard": "ARIADNE_CODEGEN_VERIF",
            "enable": "no instrumentation lives in /repo: monitors are attached from the harness (module-namespace substitution, audit hooks, "
                      "sys.monitoring, files_to_include, icontract re-binding); the variable is reserved and exported by ./check but nothing in /repo reads it",
            "baseline_off_cmd": "cd /repo && /venv/bin/python -m pytest -ra -q -p no:cacheprovider --timeout=900 --continue-on-collection-errors",
            "source_commits": [],
            "add_only": True,
        },
        "engines": [{"name": "vf", "path": "/verif/vf", "serves_properties": sorted(CHECKS),
                     "kind_free_text": "runtime monitoring harness: forked real generation + import + drive against a graphql-core reference server, oracles over observed executions"}],
        "checks": checks,
        "not_applicable": unclaimed(),
        "notes": "Repository commits are `fix:` commits only (listed in known_findings.json under fixed): " + "; ".join(fixes),
    }
    with open(os.path.join(HERE, "MANIFEST.json"), "w") as f:
        json.dump(manifest, f, indent=1)
    print("wrote MANIFEST.json with %d checks" % len(checks))


if __name__ == "__main__":
    main()
