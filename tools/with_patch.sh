#!/bin/bash
# usage: with_patch.sh <patch.diff> <cmd...>   - run cmd with VERIF_REPO pointing at a scratch copy of /repo with the patch applied
set -e
patch="$(realpath "$1")"; shift
scratch="$(mktemp -d /tmp/vf-mut-XXXXXX)"
trap 'rm -rf "$scratch"' EXIT
rsync -a --exclude .git --exclude tests /repo/ "$scratch/"
( cd "$scratch" && patch -p1 -s < "$patch" )
VERIF_REPO="$scratch" "$@"
