#!/bin/bash
# usage: tools/sweep_quick.sh <seed> [<seed> ...]   - the quick tier of every check for several seeds; prints only summary / alarm lines
cd "$(dirname "$0")/.."
for s in "$@"; do tools/run_all.sh quick "$s"; done
