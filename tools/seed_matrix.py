#!/venv/bin/python
"""Evaluate every seeded change against the current checks and record the outcome in seeded/<id>/meta.json.

usage: seed_matrix.py [--jobs N] [--only id,id] [--skip-suite]
For each seeded/<id>: tools/eval_seed.py with the property's own check at the quick tier; if that misses, the thorough tier; if that misses too, every
other property's quick check (a change can break a neighbouring property's statement as well).  Nothing here touches /repo: eval_seed.py works on scratch copies."""
import glob
import json
import os
import subprocess
import sys
from concurrent.futures import ThreadPoolExecutor

HERE = os.path.dirname(os.path.dirname(os.path.abspath(__file__)))
PROPS = ["C%02d" % i for i in range(1, 20)]


def ev(d, prop, tier, checks=None, skip_suite=False):
    cmd = ["/venv/bin/python", os.path.join(HERE, "tools", "eval_seed.py"), d, prop, "--tier", tier]
    if checks:
        cmd += ["--checks", ",".join(checks)]
    if skip_suite:
        cmd.append("--skip-suite")
    p = subprocess.run(cmd, capture_output=True, text=True, timeout=6 * 3600)
    try:
        return json.loads(p.stdout.strip().splitlines()[-1])
    except Exception:  # noqa: BLE001
        return {"error": (p.stdout + p.stderr)[-500:]}


def one(d):
    meta_p = os.path.join(d, "meta.json")
    meta = json.load(open(meta_p))
    prop = meta["property"]
    skip_suite = "--skip-suite" in sys.argv
    r = ev(d, prop, "quick", skip_suite=skip_suite)
    rec = {"patch_applies": r.get("patch_applies"), "demo_on_clean_tree_rc": r.get("demo_clean_rc"), "demo_with_change_rc": r.get("demo_patched_rc"),
           "baseline_suite_unchanged": r.get("suite_ok"), "ran": "tools/seed_matrix.py -> tools/eval_seed.py (scratch copy of /repo + patch; demo on /repo and on the copy; "
           "the repository's suite inside the copy; ./check with VERIF_REPO=<copy>)"}
    checks = {}
    caught_by = []

    def absorb(res, tier):
        for k, v in (res.get("checks") or {}).items():
            checks["%s/%s" % (k, tier)] = {"exit": v["rc"], "violation_lines": v["violations"], "clauses": v["clauses"][:6]}
            if v["rc"] == 1 and v["violations"]:
                caught_by.append("%s (%s)" % (k, tier))

    absorb(r, "quick")
    quick_only = "--quick-only" in sys.argv
    if not caught_by and "error" not in r and not quick_only:
        absorb(ev(d, prop, "thorough", skip_suite=True), "thorough")
    if not caught_by and "error" not in r and not quick_only:
        absorb(ev(d, prop, "quick", checks=[p for p in PROPS if p != prop], skip_suite=True), "quick")
    meta["confirmed_by_me"] = rec
    meta["checks"] = checks
    meta["caught_by"] = caught_by
    if "error" in r:
        meta["eval_error"] = r["error"]
    json.dump(meta, open(meta_p, "w"), indent=1)
    return os.path.basename(d), caught_by, rec


def main():
    jobs = int(sys.argv[sys.argv.index("--jobs") + 1]) if "--jobs" in sys.argv else 3
    only = set(sys.argv[sys.argv.index("--only") + 1].split(",")) if "--only" in sys.argv else None
    dirs = [d for d in sorted(glob.glob(os.path.join(HERE, "seeded", "[CFGHSTUVWX]*"))) if os.path.exists(os.path.join(d, "patch.diff")) and (only is None or os.path.basename(d) in only)]
    with ThreadPoolExecutor(max_workers=jobs) as ex:
        for name, caught, rec in ex.map(one, dirs):
            print(name, "caught by", caught or "NOTHING", "| demo", rec["demo_on_clean_tree_rc"], rec["demo_with_change_rc"], "suite", rec["baseline_suite_unchanged"], flush=True)


if __name__ == "__main__":
    main()
