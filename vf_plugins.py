"""Plugins shipped by the verification harness (imported by ariadne-codegen through their dotted path)."""
from ariadne_codegen.plugins.base import Plugin


class IdentityPlugin(Plugin):
    """Overrides no hook: must not change a byte."""


class _Marker(Plugin):
    MARK = "?"

    def _m(self, code):
        return code + "# marker:%s\n" % self.MARK

    def generate_client_code(self, generated_code):
        return self._m(generated_code)

    def generate_enums_code(self, generated_code):
        return self._m(generated_code)

    def generate_inputs_code(self, generated_code):
        return self._m(generated_code)

    def generate_result_types_code(self, generated_code):
        return self._m(generated_code)

    def copy_code(self, copied_code):
        return self._m(copied_code)

    def generate_init_code(self, generated_code):
        return self._m(generated_code)

    def get_file_comment(self, comment, code, source=None):
        return (comment + "\n" if comment else "") + "# comment-marker:%s" % self.MARK

    def generate_operation_str(self, operation_str, operation_definition):
        return operation_str + "\n# op-marker:%s" % self.MARK


class MarkerA(_Marker):
    MARK = "A"


class MarkerB(_Marker):
    MARK = "B"


class StripComment(Plugin):
    """Returns an empty (falsy) file comment: a later plugin must see exactly that, and the file must start without a header."""

    def get_file_comment(self, comment, code, source=None):
        return ""


class DropQuerySuffix(Plugin):
    """A naming plugin of the kind the plugin documentation suggests: operation (and other) names lose a trailing Query / _query. Two distinct names of one scope
    may meet only AFTER this hook ran (getUser / getUserQuery)."""

    def process_name(self, name, node=None):
        for suffix in ("_query", "Query"):
            if name.endswith(suffix) and len(name) > len(suffix):
                return name[: -len(suffix)]
        return name
